"""E2/E4/E5 -- structural control flow over the statement kinds the repository uses:
  * guard_map: path condition of every statement (enclosing tests + negated early exits)
  * ReachingDefs: flow-sensitive reaching definitions (structured walk, loops iterated to fixpoint)
  * Typestate: path-sensitive propagation of a finite rule state with known-facts pruning
"""
from __future__ import annotations

import ast
import re
from typing import Callable, Dict, FrozenSet, Iterable, Iterator, List, Optional, Sequence, Set, Tuple

from . import guards as G
from .repo import dotted, unparse, walk_no_nested, norm

FuncT = (ast.FunctionDef, ast.AsyncFunctionDef)
CONTAINER_ADDERS = ("append", "extend", "add", "update", "insert", "setdefault", "appendleft")


# ------------------------------------------------------------------ abrupt completion
def always_abrupt(stmts: Sequence[ast.stmt]) -> Optional[str]:
    """if every path through the block ends in return/raise/continue/break, return the set kind
    ('return','raise','continue','break','mixed'); else None"""
    for st in stmts:
        k = _abrupt_stmt(st)
        if k:
            return k
    return None


def _abrupt_stmt(st: ast.stmt) -> Optional[str]:
    if isinstance(st, ast.Return):
        return "return"
    if isinstance(st, ast.Raise):
        return "raise"
    if isinstance(st, ast.Continue):
        return "continue"
    if isinstance(st, ast.Break):
        return "break"
    if isinstance(st, ast.If):
        a, b = always_abrupt(st.body), always_abrupt(st.orelse)
        if a and b:
            return a if a == b else "mixed"
    if isinstance(st, ast.With):
        return always_abrupt(st.body)
    if isinstance(st, ast.Try):
        a = always_abrupt(st.body)
        hs = [always_abrupt(h.body) for h in st.handlers]
        if st.finalbody and always_abrupt(st.finalbody):
            return always_abrupt(st.finalbody)
        if a and all(hs) and not st.orelse:
            return "mixed"
    if isinstance(st, ast.Expr) and isinstance(st.value, ast.Call):
        fn = st.value.func
        if isinstance(fn, ast.Attribute) and fn.attr in ("exit", "_exit") and isinstance(fn.value, ast.Name) \
                and fn.value.id in ("sys", "os"):
            return "raise"
    return None


_ALWAYS = ast.Constant(value=True)


def _exit_expr(stmts: Sequence[ast.stmt]) -> Optional[ast.AST]:
    """condition (as a synthetic expression over the tests of nested ifs) under which the block ends abruptly; _ALWAYS / None = always / never.
    Only if/with nests are followed (a loop body's exits concern the loop, a try's its handlers)."""
    acc: Optional[ast.AST] = None
    for st in stmts:
        e = _exit_stmt(st)
        if e is None:
            # a statement that may rebind the names the accumulated condition reads makes it unusable further down
            continue
        if e is _ALWAYS:
            return _ALWAYS if acc is None else _ALWAYS
        acc = e if acc is None else ast.BoolOp(op=ast.Or(), values=[acc, e])
    return acc


def _exit_stmt(st: ast.stmt) -> Optional[ast.AST]:
    if _abrupt_stmt(st) and not isinstance(st, (ast.If, ast.With, ast.Try)):
        return _ALWAYS
    if isinstance(st, ast.If):
        a, b = _exit_expr(st.body), _exit_expr(st.orelse)
        parts = []
        if a is _ALWAYS:
            parts.append(st.test)
        elif a is not None:
            parts.append(ast.BoolOp(op=ast.And(), values=[st.test, a]))
        nt = ast.UnaryOp(op=ast.Not(), operand=st.test)
        if b is _ALWAYS:
            parts.append(nt)
        elif b is not None:
            parts.append(ast.BoolOp(op=ast.And(), values=[nt, b]))
        if a is _ALWAYS and b is _ALWAYS:
            return _ALWAYS
        if not parts:
            return None
        return parts[0] if len(parts) == 1 else ast.BoolOp(op=ast.Or(), values=parts)
    if isinstance(st, (ast.With, ast.AsyncWith)):
        return _exit_expr(st.body)
    return None


# ------------------------------------------------------------------ guard map
Cond = Tuple[ast.AST, bool]  # (test expression, polarity)


class GuardMap:
    """path condition (list of (test, polarity)) for each statement of a function; also records the
    enclosing loops of every statement."""

    def __init__(self, fn: ast.AST):
        self.fn = fn
        self._aliases: Optional[Dict[str, ast.AST]] = None
        self.conds: Dict[int, List[Cond]] = {}
        self.early: Set[Tuple[int, bool]] = set()   # ids of tests that are in a path condition because an earlier branch always exits
        self.loops: Dict[int, List[ast.stmt]] = {}
        self.stmt_of: Dict[int, ast.stmt] = {}
        body = fn.body if hasattr(fn, "body") and isinstance(fn.body, list) else [fn]
        self._block(body, [], [])

    def _block(self, stmts: Sequence[ast.stmt], conds: List[Cond], loops: List[ast.stmt]) -> None:
        conds = list(conds)
        for st in stmts:
            self.conds[id(st)] = list(conds)
            self.loops[id(st)] = list(loops)
            if isinstance(st, ast.If):
                self._block(st.body, conds + [(st.test, True)], loops)
                self._block(st.orelse, conds + [(st.test, False)], loops)
                a, b = always_abrupt(st.body), always_abrupt(st.orelse)
                if a and not b:
                    conds.append((st.test, False))
                    self.early.add((id(st.test), False))
                elif b and not a:
                    conds.append((st.test, True))
                    self.early.add((id(st.test), True))
                elif not a and not b:
                    # some nested branch exits: what follows runs only when that nested condition failed
                    e = _exit_expr([st])
                    if e is not None and e is not _ALWAYS:
                        conds.append((e, False))
                        self.early.add((id(e), False))
            elif isinstance(st, (ast.For, ast.AsyncFor)):
                self._block(st.body, conds, loops + [st])
                self._block(st.orelse, conds, loops)
            elif isinstance(st, ast.While):
                self._block(st.body, conds + [(st.test, True)], loops + [st])
                self._block(st.orelse, conds, loops)
            elif isinstance(st, (ast.With, ast.AsyncWith)):
                self._block(st.body, conds, loops)
            elif isinstance(st, ast.Try):
                self._block(st.body, conds, loops)
                for h in st.handlers:
                    self._block(h.body, conds, loops)
                self._block(st.orelse, conds, loops)
                self._block(st.finalbody, conds, loops)
            elif isinstance(st, ast.Match):
                for c in st.cases:
                    self._block(c.body, conds, loops)
            elif isinstance(st, ast.Assert):
                conds.append((st.test, True))

    def stmt(self, node: ast.AST) -> ast.stmt:
        n = node
        while n is not None and id(n) not in self.conds:
            n = getattr(n, "_parent", None)
        if n is None:
            raise KeyError("node not in function")
        return n  # type: ignore[return-value]

    def of(self, node: ast.AST) -> List[Cond]:
        """conditions under which `node` (a statement or an expression inside one) is evaluated"""
        st = self.stmt(node)
        out = list(self.conds[id(st)])
        # short-circuit / conditional-expression context inside the statement
        n, child = getattr(node, "_parent", None), node
        inner: List[Cond] = []
        while n is not None and child is not st:
            if isinstance(n, ast.IfExp):
                if child is n.body:
                    inner.append((n.test, True))
                elif child is n.orelse:
                    inner.append((n.test, False))
            elif isinstance(n, ast.BoolOp):
                idx = next((i for i, v in enumerate(n.values) if v is child), 0)
                for v in n.values[:idx]:
                    inner.append((v, isinstance(n.op, ast.And)))
            elif isinstance(n, ast.comprehension):
                pass
            elif isinstance(n, (ast.ListComp, ast.SetComp, ast.GeneratorExp, ast.DictComp)):
                if child in ([n.elt] if hasattr(n, "elt") else [n.key, n.value]):
                    for gen in n.generators:
                        for c in gen.ifs:
                            inner.append((c, True))
            child, n = n, getattr(n, "_parent", None)
        return out + list(reversed(inner))

    def aliases(self) -> Dict[str, ast.AST]:
        """single-assignment locals bound to a side-effect-free expression (substituted into guard atoms so that
        `attrs = rule["attrs"]; if attrs["global"]` and `if rule["attrs"]["global"]` give the same atom)"""
        if self._aliases is None:
            stores: Dict[str, int] = {}
            bare = {id(n.target) for n in walk_no_nested(self.fn) if isinstance(n, ast.AnnAssign) and n.value is None}
            for n in walk_no_nested(self.fn):
                if isinstance(n, ast.Name) and isinstance(n.ctx, (ast.Store, ast.Del)) and id(n) not in bare:
                    stores[n.id] = stores.get(n.id, 0) + 1
            params = set()
            if isinstance(self.fn, FuncT):
                a = self.fn.args
                params = {x.arg for x in a.args + a.kwonlyargs + a.posonlyargs}
            out: Dict[str, ast.AST] = {}
            SAFE = ("startswith", "endswith", "get", "strip", "lower", "keys", "items", "values", "count", "intersection", "isdisjoint", "issubset", "issuperset", "difference",
                    "union", "split", "rstrip", "lstrip", "upper", "isdigit", "isspace", "match", "search", "fullmatch", "find", "index", "join")
            for n in walk_no_nested(self.fn):
                if isinstance(n, ast.Assign) and len(n.targets) == 1 and isinstance(n.targets[0], ast.Name):
                    x = n.targets[0].id
                    if stores.get(x) != 1 or x in params:
                        continue
                    v = n.value
                    bad = False
                    for m in ast.walk(v):
                        if isinstance(m, (ast.Yield, ast.YieldFrom, ast.Await, ast.NamedExpr, ast.Lambda, ast.ListComp, ast.SetComp, ast.DictComp, ast.GeneratorExp, ast.List, ast.Dict, ast.Set)):
                            bad = True
                        if isinstance(m, ast.Call):
                            nm = m.func.id if isinstance(m.func, ast.Name) else (m.func.attr if isinstance(m.func, ast.Attribute) else None)
                            if not ((isinstance(m.func, ast.Name) and nm in ("bool", "len", "tuple", "str", "int", "set", "frozenset", "isinstance", "any", "all", "min", "max", "sorted")) or (isinstance(m.func, ast.Attribute) and nm in SAFE)):
                                bad = True
                        if isinstance(m, ast.Name) and isinstance(m.ctx, ast.Load) and stores.get(m.id, 0) > 1:
                            bad = True
                    if not bad:
                        out[x] = v
            self._aliases = out
        return self._aliases

    def formula(self, node: ast.AST, env: Optional[G.GuardEnv] = None, skip_early: bool = False, alias: bool = False):
        """path condition; skip_early drops conjuncts that only say 'an earlier branch did not exit';
        alias=True substitutes single-assignment pure locals into the atoms'"""
        env = env or G.GuardEnv()
        if alias:
            merged = dict(self.aliases())
            merged.update(env.subst or {})
            env = G.GuardEnv(subst=merged, rename=env.rename)
        return G.And(*[(G.formula(t, env) if pol else G.Not(G.formula(t, env))) for t, pol in self.of(node)
                       if not (skip_early and (id(t), pol) in self.early)])

    def in_loop(self, node: ast.AST) -> List[ast.stmt]:
        return self.loops[id(self.stmt(node))]


# ------------------------------------------------------------------ reaching definitions
class Def:
    """one definition of a local name"""
    __slots__ = ("name", "kind", "value", "stmt", "index")

    def __init__(self, name: str, kind: str, value: Optional[ast.AST], stmt: Optional[ast.AST], index=None):
        self.name = name
        self.kind = kind      # param | assign | aug | for | with | unpack | except | import | comp | walrus | def
        self.value = value    # expression the value comes from (for 'for': the iterable; 'unpack': the rhs)
        self.stmt = stmt
        self.index = index    # position inside a tuple target for 'unpack' / 'for'

    def _key(self):
        return (self.name, self.kind, id(self.value), id(self.stmt), self.index)

    def __eq__(self, other):
        return isinstance(other, Def) and self._key() == other._key()

    def __hash__(self):
        return hash(self._key())

    def __repr__(self):
        return f"Def({self.name},{self.kind},{unparse(self.value) if self.value is not None else None})"


Env = Dict[str, FrozenSet[Def]]


class ReachingDefs:
    def __init__(self, fn: ast.AST):
        self.fn = fn
        self.at: Dict[int, FrozenSet[Def]] = {}   # id(Name load node) -> defs
        self.env_before: Dict[int, Env] = {}      # id(stmt) -> env
        self.exit_env: Env = {}
        env: Env = {}
        if isinstance(fn, FuncT):
            a = fn.args
            for arg in a.posonlyargs + a.args + a.kwonlyargs + ([a.vararg] if a.vararg else []) + ([a.kwarg] if a.kwarg else []):
                env[arg.arg] = frozenset([Def(arg.arg, "param", None, arg)])
            body = fn.body
        else:
            body = fn.body  # type: ignore[attr-defined]
        self._break_envs: List[List[Env]] = []
        self._cont_envs: List[List[Env]] = []
        self._ret_envs: List[Env] = []
        out = self._block(body, env)
        self.exit_env = self._merge([out] + self._ret_envs) if out is not None else self._merge(self._ret_envs)

    # helpers
    @staticmethod
    def _merge(envs: Sequence[Optional[Env]]) -> Env:
        envs = [e for e in envs if e is not None]
        if not envs:
            return {}
        out: Env = {}
        for e in envs:
            for k, v in e.items():
                out[k] = out.get(k, frozenset()) | v
        return out

    def _use(self, expr: Optional[ast.AST], env: Env) -> None:
        if expr is None:
            return
        # comprehension variables are bound inside the expression
        for n in ast.walk(expr):
            if isinstance(n, (ast.ListComp, ast.SetComp, ast.GeneratorExp, ast.DictComp)):
                for gen in n.generators:
                    self._bind_target(gen.target, gen.iter, n, env_out := dict(env), kind="comp")
                    env = env_out
            if isinstance(n, ast.NamedExpr) and isinstance(n.target, ast.Name):
                env = dict(env)
                env[n.target.id] = frozenset([Def(n.target.id, "walrus", n.value, n)])
            if isinstance(n, ast.Lambda):
                env = dict(env)
                for arg in n.args.args:
                    env[arg.arg] = frozenset([Def(arg.arg, "param", None, arg)])
        for n in ast.walk(expr):
            if isinstance(n, ast.Name) and isinstance(n.ctx, ast.Load):
                self.at[id(n)] = self.at.get(id(n), frozenset()) | env.get(n.id, frozenset())

    def _bind_target(self, tgt: ast.AST, value: Optional[ast.AST], stmt: ast.AST, env: Env, kind: str, index=None) -> None:
        if isinstance(tgt, ast.Name):
            env[tgt.id] = frozenset([Def(tgt.id, kind, value, stmt, index)])
        elif isinstance(tgt, (ast.Tuple, ast.List)):
            for i, el in enumerate(tgt.elts):
                sub_index = (index or ()) + (i,)
                if isinstance(el, ast.Starred):
                    el = el.value
                self._bind_target(el, value, stmt, env, "unpack" if kind in ("assign", "unpack") else kind, sub_index)
        elif isinstance(tgt, (ast.Attribute, ast.Subscript)):
            self._use(tgt.value, env)
            if isinstance(tgt, ast.Subscript):
                self._use(tgt.slice, env)
            b = tgt
            while isinstance(b, (ast.Attribute, ast.Subscript)):
                b = b.value
            if isinstance(b, ast.Name) and value is not None and kind == "assign":
                env[b.id] = env.get(b.id, frozenset()) | frozenset([Def(b.id, "mut", value, stmt)])
        elif isinstance(tgt, ast.Starred):
            self._bind_target(tgt.value, value, stmt, env, kind, index)

    def _block(self, stmts: Sequence[ast.stmt], env: Optional[Env]) -> Optional[Env]:
        for st in stmts:
            if env is None:
                # unreachable code after an abrupt statement: still record uses with empty env
                env = {}
            env = self._stmt(st, env)
        return env

    def _stmt(self, st: ast.stmt, env: Env) -> Optional[Env]:
        self.env_before[id(st)] = dict(env)
        env = dict(env)
        if isinstance(st, ast.Assign):
            self._use(st.value, env)
            for t in st.targets:
                self._bind_target(t, st.value, st, env, "assign")
            return env
        if isinstance(st, ast.AnnAssign):
            self._use(st.value, env)
            if st.value is not None:
                self._bind_target(st.target, st.value, st, env, "assign")
            return env
        if isinstance(st, ast.AugAssign):
            self._use(st.value, env)
            if isinstance(st.target, ast.Name):
                prev = env.get(st.target.id, frozenset())
                self.at[id(st.target)] = prev
                env[st.target.id] = frozenset([Def(st.target.id, "aug", st.value, st)]) | prev
            else:
                self._use(st.target, env)
            return env
        if isinstance(st, (ast.Expr,)):
            self._use(st.value, env)
            # container mutation through a method is a weak update of the receiver name
            v = st.value
            if isinstance(v, ast.Await):
                v = v.value
            if isinstance(v, ast.Call) and isinstance(v.func, ast.Attribute) and isinstance(v.func.value, ast.Name) \
                    and v.func.attr in CONTAINER_ADDERS and (v.args or v.keywords):
                nm = v.func.value.id
                prev = env.get(nm, frozenset())
                vals = list(v.args[-1:]) if v.func.attr in ("insert", "setdefault") else list(v.args)
                vals += [k.value for k in v.keywords]
                env[nm] = prev | frozenset(Def(nm, "mut", a, st) for a in vals)
            return env
        if isinstance(st, ast.Return):
            self._use(st.value, env)
            self._ret_envs.append(env)
            return None
        if isinstance(st, ast.Raise):
            self._use(st.exc, env)
            self._use(st.cause, env)
            return None
        if isinstance(st, ast.Assert):
            self._use(st.test, env)
            self._use(st.msg, env)
            return env
        if isinstance(st, ast.Delete):
            for t in st.targets:
                if isinstance(t, ast.Name):
                    env.pop(t.id, None)
                else:
                    self._use(t, env)
            return env
        if isinstance(st, (ast.Import, ast.ImportFrom)):
            for a in st.names:
                nm = (a.asname or a.name).split(".")[0]
                env[nm] = frozenset([Def(nm, "import", None, st)])
            return env
        if isinstance(st, (ast.FunctionDef, ast.AsyncFunctionDef, ast.ClassDef)):
            env[st.name] = frozenset([Def(st.name, "def", None, st)])
            return env
        if isinstance(st, ast.If):
            self._use(st.test, env)
            a = self._block(st.body, dict(env))
            b = self._block(st.orelse, dict(env))
            if a is None and b is None:
                return None
            return self._merge([a, b])
        if isinstance(st, (ast.For, ast.AsyncFor)):
            self._use(st.iter, env)
            self._break_envs.append([])
            self._cont_envs.append([])
            cur = dict(env)
            out_body: Optional[Env] = None
            for _ in range(3):
                it_env = dict(cur)
                self._bind_target(st.target, st.iter, st, it_env, "for")
                out_body = self._block(st.body, it_env)
                nxt = self._merge([cur, out_body] + self._cont_envs[-1])
                if all(nxt.get(k) == cur.get(k) for k in set(nxt) | set(cur)):
                    cur = nxt
                    break
                cur = nxt
            brk = self._break_envs.pop()
            self._cont_envs.pop()
            after = self._block(st.orelse, dict(cur)) if st.orelse else cur
            return self._merge([after] + brk)
        if isinstance(st, ast.While):
            self._break_envs.append([])
            self._cont_envs.append([])
            cur = dict(env)
            for _ in range(3):
                self._use(st.test, cur)
                out_body = self._block(st.body, dict(cur))
                nxt = self._merge([cur, out_body] + self._cont_envs[-1])
                if all(nxt.get(k) == cur.get(k) for k in set(nxt) | set(cur)):
                    cur = nxt
                    break
                cur = nxt
            brk = self._break_envs.pop()
            self._cont_envs.pop()
            infinite = isinstance(st.test, ast.Constant) and bool(st.test.value)
            after = self._block(st.orelse, dict(cur)) if st.orelse else cur
            if infinite:
                return self._merge(brk) if brk else None
            return self._merge([after] + brk)
        if isinstance(st, ast.Break):
            if self._break_envs:
                self._break_envs[-1].append(env)
            return None
        if isinstance(st, ast.Continue):
            if self._cont_envs:
                self._cont_envs[-1].append(env)
            return None
        if isinstance(st, (ast.With, ast.AsyncWith)):
            for item in st.items:
                self._use(item.context_expr, env)
                if item.optional_vars is not None:
                    self._bind_target(item.optional_vars, item.context_expr, st, env, "with")
            return self._block(st.body, env)
        if isinstance(st, ast.Try):
            body_out = self._block(st.body, dict(env))
            # an exception may occur anywhere in the body: handlers see any mixture
            mix = self._merge([env, body_out] + [self.env_before.get(id(s)) for s in st.body])
            outs: List[Optional[Env]] = []
            for h in st.handlers:
                henv = dict(mix)
                self._use(h.type, henv)
                if h.name:
                    henv[h.name] = frozenset([Def(h.name, "except", h.type, h)])
                outs.append(self._block(h.body, henv))
            if st.orelse:
                body_out = self._block(st.orelse, body_out) if body_out is not None else None
            outs.append(body_out)
            live = [o for o in outs if o is not None]
            res = self._merge(live) if live else None
            if st.finalbody:
                res = self._block(st.finalbody, res if res is not None else dict(mix))
            return res
        if isinstance(st, ast.Match):
            self._use(st.subject, env)
            outs = []
            for c in st.cases:
                cenv = dict(env)
                for n in ast.walk(c.pattern):
                    nm = getattr(n, "name", None)
                    if isinstance(nm, str):
                        cenv[nm] = frozenset([Def(nm, "assign", st.subject, st)])
                outs.append(self._block(c.body, cenv))
            outs.append(env)
            live = [o for o in outs if o is not None]
            return self._merge(live) if live else None
        if isinstance(st, (ast.Global, ast.Nonlocal, ast.Pass)):
            return env
        # anything else: record uses
        for ch in ast.iter_child_nodes(st):
            if isinstance(ch, ast.expr):
                self._use(ch, env)
        return env

    # ----- queries
    def defs(self, name_node: ast.Name) -> FrozenSet[Def]:
        return self.at.get(id(name_node), frozenset())


class Provenance:
    """'does the value of expression E derive from ...' over reaching definitions of one function"""

    def __init__(self, fn: ast.AST, rd: Optional[ReachingDefs] = None):
        self.fn = fn
        self.rd = rd or ReachingDefs(fn)

    def origins(self, expr: ast.AST, through_calls: bool = False, _seen: Optional[Set[int]] = None,
                through_attr: bool = True, stop_at: Optional[Callable[[ast.Call], bool]] = None) -> List[Tuple[str, ast.AST]]:
        """leaf origins of a value: list of (kind, node), kind in
        param | call | const | attr | for | with | other.  Calls are leaves unless through_calls
        (then their arguments/receiver are followed as well and the call itself is also reported)."""
        seen = _seen if _seen is not None else set()
        out: List[Tuple[str, ast.AST]] = []
        if id(expr) in seen:
            return out
        seen.add(id(expr))

        def rec(e):
            return self.origins(e, through_calls, seen, through_attr, stop_at)
        if isinstance(expr, ast.Name):
            ds = self.rd.defs(expr)
            if not ds:
                out.append(("free", expr))
            for d in ds:
                if d.kind == "param":
                    out.append(("param", d.stmt))
                elif d.kind in ("assign", "walrus", "aug", "with", "except", "mut"):
                    if d.value is not None:
                        out.extend(rec(d.value))
                elif d.kind == "unpack":
                    out.append(("unpack", d))  # caller may look into d.value / d.index
                    v = d.value
                    if isinstance(v, (ast.Tuple, ast.List)) and d.index and len(d.index) == 1 and d.index[0] < len(v.elts):
                        out.pop()
                        out.extend(rec(v.elts[d.index[0]]))
                    elif v is not None:
                        out.extend(rec(v))
                elif d.kind in ("for", "comp"):
                    out.append(("for", d))
                    if d.value is not None:
                        out.extend(rec(d.value))
                else:
                    out.append((d.kind, d.stmt))
            return out
        if isinstance(expr, ast.Constant):
            return [("const", expr)]
        if isinstance(expr, ast.Call):
            out.append(("call", expr))
            if through_calls and not (stop_at and stop_at(expr)):
                for a in expr.args:
                    out.extend(rec(a.value if isinstance(a, ast.Starred) else a))
                for k in expr.keywords:
                    out.extend(rec(k.value))
                if isinstance(expr.func, ast.Attribute):
                    out.extend(rec(expr.func.value))
            return out
        if isinstance(expr, ast.Attribute):
            out.append(("attr", expr))
            if through_attr:
                out.extend(rec(expr.value))
            return out
        if isinstance(expr, ast.Subscript):
            out.append(("subscript", expr))
            out.extend(rec(expr.value))
            return out
        if isinstance(expr, ast.Starred):
            return rec(expr.value)
        if isinstance(expr, (ast.Tuple, ast.List, ast.Set)):
            for e in expr.elts:
                out.extend(rec(e))
            return out
        if isinstance(expr, ast.Dict):
            for e in expr.values:
                if e is not None:
                    out.extend(rec(e))
            return out
        if isinstance(expr, ast.IfExp):
            return rec(expr.body) + rec(expr.orelse)
        if isinstance(expr, ast.BoolOp):
            for e in expr.values:
                out.extend(rec(e))
            return out
        if isinstance(expr, ast.BinOp):
            return rec(expr.left) + rec(expr.right)
        if isinstance(expr, ast.UnaryOp):
            return rec(expr.operand)
        if isinstance(expr, ast.NamedExpr):
            return rec(expr.value)
        if isinstance(expr, ast.JoinedStr):
            for v in expr.values:
                if isinstance(v, ast.FormattedValue):
                    out.extend(rec(v.value))
            return out
        if isinstance(expr, (ast.ListComp, ast.SetComp, ast.GeneratorExp)):
            out.append(("comp", expr))
            out.extend(rec(expr.elt))
            return out
        if isinstance(expr, ast.DictComp):
            out.append(("comp", expr))
            out.extend(rec(expr.value))
            out.extend(rec(expr.key))
            return out
        if isinstance(expr, ast.Await):
            return rec(expr.value)
        if isinstance(expr, ast.Compare):
            out.append(("compare", expr))
            return out
        out.append(("other", expr))
        return out

    # ----- object identity (aliasing): which objects may `expr` BE (contents=False) or CONTAIN (contents=True)
    def aliases(self, expr: ast.AST, contents: bool = False, is_fresh: Optional[Callable[[ast.Call], bool]] = None,
                call_summary: Optional[Callable[[ast.Call], Optional[List[ast.AST]]]] = None,
                _seen: Optional[Set[Tuple[int, bool]]] = None,
                is_shallow: Optional[Callable[[ast.Call], bool]] = None) -> List[Tuple[str, ast.AST]]:
        """leaves: ('param', arg) ('call', Call) ('fresh', node) ('free', Name) ('other', node).
        Two-level abstraction: an object, and everything reachable inside it (any depth).
        `is_fresh(call)`: result aliases nothing (copier).  `call_summary(call)` -> list of argument
        expressions the result may alias (None = unknown -> may alias every argument and the receiver)."""
        seen = _seen if _seen is not None else set()
        key = (id(expr), contents)
        if key in seen:
            return []
        seen.add(key)
        out: List[Tuple[str, ast.AST]] = []

        def IS(e):
            return self.aliases(e, False, is_fresh, call_summary, seen, is_shallow)

        def IN(e):
            return self.aliases(e, True, is_fresh, call_summary, seen, is_shallow)
        if isinstance(expr, ast.Name):
            ds = self.rd.defs(expr)
            if not ds:
                return [("free", expr)]
            for d in ds:
                if d.kind == "param":
                    out.append(("param", d.stmt))
                elif d.kind in ("assign", "walrus", "with", "aug"):
                    if d.value is not None:
                        out.extend(IN(d.value) if contents else IS(d.value))
                elif d.kind == "mut":
                    if contents and d.value is not None:
                        out.extend(IS(d.value) + IN(d.value))
                elif d.kind in ("unpack", "for", "comp"):
                    if d.value is not None:
                        v = d.value
                        if d.kind == "unpack" and isinstance(v, (ast.Tuple, ast.List)) and d.index and len(d.index) == 1 \
                                and d.index[0] < len(v.elts):
                            out.extend(IN(v.elts[d.index[0]]) if contents else IS(v.elts[d.index[0]]))
                        else:
                            out.extend(IN(v))
                elif d.kind == "except":
                    out.append(("fresh", d.stmt))
                else:
                    out.append(("other", d.stmt))
            return out
        if isinstance(expr, (ast.Subscript, ast.Attribute)):
            return IN(expr.value)
        if isinstance(expr, ast.Starred):
            return IN(expr.value)
        if isinstance(expr, (ast.Tuple, ast.List, ast.Set)):
            if not contents:
                return [("fresh", expr)]
            for e in expr.elts:
                out.extend(IS(e) + IN(e))
            return out
        if isinstance(expr, ast.Dict):
            if not contents:
                return [("fresh", expr)]
            for e in expr.values:
                if e is not None:
                    out.extend(IS(e) + IN(e))
            return out
        if isinstance(expr, (ast.ListComp, ast.SetComp, ast.GeneratorExp)):
            if not contents:
                return [("fresh", expr)]
            return IS(expr.elt) + IN(expr.elt)
        if isinstance(expr, ast.DictComp):
            if not contents:
                return [("fresh", expr)]
            return IS(expr.value) + IN(expr.value)
        if isinstance(expr, ast.IfExp):
            return (IN(expr.body) + IN(expr.orelse)) if contents else (IS(expr.body) + IS(expr.orelse))
        if isinstance(expr, ast.BoolOp):
            for e in expr.values:
                out.extend(IN(e) if contents else IS(e))
            return out
        if isinstance(expr, ast.NamedExpr):
            return IN(expr.value) if contents else IS(expr.value)
        if isinstance(expr, ast.Await):
            return IN(expr.value) if contents else IS(expr.value)
        if isinstance(expr, ast.BinOp):
            # a + b builds a new container holding the operands' contents
            if not contents:
                return [("fresh", expr)]
            return IN(expr.left) + IN(expr.right)
        if isinstance(expr, (ast.Constant, ast.JoinedStr, ast.Compare, ast.UnaryOp, ast.Lambda)):
            return [("fresh", expr)]
        if isinstance(expr, ast.Call):
            out.append(("call", expr))
            if is_fresh and is_fresh(expr):
                return out
            if is_shallow and is_shallow(expr) and expr.args:
                # new container, shared children
                if contents:
                    out.extend(IN(expr.args[0]))
                return out
            srcs: Optional[List[ast.AST]] = call_summary(expr) if call_summary else None
            if srcs is None:
                srcs = [a.value if isinstance(a, ast.Starred) else a for a in expr.args] + [k.value for k in expr.keywords]
                if isinstance(expr.func, ast.Attribute):
                    srcs.append(expr.func.value)
            for a in srcs:
                out.extend(IS(a) + IN(a))
            return out
        return [("other", expr)]

    # ----- where do the elements of an iterable come from (through locals, comprehensions, sorted/list/reversed/enumerate/zip)
    def iteration_bases(self, expr: ast.AST, _depth: int = 0) -> Tuple[Set[str], List[ast.AST]]:
        """-> (texts of the underlying iterables, filter conditions met on the way: comprehension `if`s)"""
        bases: Set[str] = set()
        filters: List[ast.AST] = []
        if _depth > 8:
            return {norm(expr)}, filters
        e = expr
        if isinstance(e, ast.Name):
            ds = [d for d in self.rd.defs(e) if d.kind in ("assign", "aug", "mut") and d.value is not None]
            if not ds:
                return {e.id}, filters
            for d in ds:
                if d.kind == "mut":
                    # acc.append(x) inside a loop: the elements come from what that loop iterates
                    v = d.value
                    st = d.stmt
                    p_ = getattr(st, "_parent", None)
                    while p_ is not None and not isinstance(p_, (ast.For, FuncT)):
                        if isinstance(p_, ast.If):
                            filters.append(p_.test)
                        p_ = getattr(p_, "_parent", None)
                    if isinstance(p_, ast.For):
                        b, f = self.iteration_bases(p_.iter, _depth + 1)
                        bases |= b
                        filters += f
                    continue
                b, f = self.iteration_bases(d.value, _depth + 1)
                bases |= b
                filters += f
            return bases, filters
        if isinstance(e, (ast.ListComp, ast.SetComp, ast.GeneratorExp, ast.DictComp)):
            for g in e.generators:
                filters += list(g.ifs)
                b, f = self.iteration_bases(g.iter, _depth + 1)
                bases |= b
                filters += f
            return bases, filters
        if isinstance(e, ast.Call):
            nm = dotted(e.func) or ""
            if nm in ("sorted", "list", "tuple", "reversed", "enumerate", "iter", "set", "frozenset") and e.args:
                return self.iteration_bases(e.args[0], _depth + 1)
            if nm == "zip":
                for a in e.args:
                    b, f = self.iteration_bases(a, _depth + 1)
                    bases |= b
                    filters += f
                return bases, filters
            if nm == "filter" and len(e.args) == 2:
                b, f = self.iteration_bases(e.args[1], _depth + 1)
                return b, f + [e.args[0]]
        if isinstance(e, (ast.List, ast.Tuple)) and not e.elts:
            return set(), filters
        return {norm(e)}, filters

    # ----- access-path roots: which parameter's object graph does `expr` point into (no flow through fresh containers)
    ELEMENT_METHODS = ("get", "items", "values", "keys", "pop", "setdefault", "popitem", "copy_shallow")

    def roots(self, expr: ast.AST, is_fresh: Optional[Callable[[ast.Call], bool]] = None,
              call_summary: Optional[Callable[[ast.Call], Optional[List[ast.AST]]]] = None,
              _seen: Optional[Set[int]] = None) -> List[Tuple[str, ast.AST]]:
        """leaves ('param', arg) | ('call', Call unresolved) | ('free', Name): `expr` is an access path (subscripts, attributes,
        element iteration, .get/.items/.values, resolved callees returning part of an argument) rooted there"""
        seen = _seen if _seen is not None else set()
        if id(expr) in seen:
            return []
        seen.add(id(expr))

        def R(e):
            return self.roots(e, is_fresh, call_summary, seen)
        if isinstance(expr, ast.Name):
            ds = self.rd.defs(expr)
            if not ds:
                return [("free", expr)]
            out: List[Tuple[str, ast.AST]] = []
            for d in ds:
                if d.kind == "param":
                    out.append(("param", d.stmt))
                elif d.kind in ("assign", "walrus", "with", "aug", "unpack", "for", "comp"):
                    if d.value is not None:
                        v = d.value
                        if d.kind == "unpack" and isinstance(v, (ast.Tuple, ast.List)) and d.index and len(d.index) == 1 and d.index[0] < len(v.elts):
                            out.extend(R(v.elts[d.index[0]]))
                        else:
                            out.extend(R(v))
            return out
        if isinstance(expr, (ast.Subscript, ast.Attribute, ast.Starred)):
            return R(expr.value)
        if isinstance(expr, ast.IfExp):
            return R(expr.body) + R(expr.orelse)
        if isinstance(expr, ast.BoolOp):
            out = []
            for e in expr.values:
                out.extend(R(e))
            return out
        if isinstance(expr, (ast.NamedExpr, ast.Await)):
            return R(expr.value)
        if isinstance(expr, ast.Call):
            if is_fresh and is_fresh(expr):
                return []
            f = expr.func
            srcs = call_summary(expr) if call_summary else None
            if srcs is not None:
                out = []
                for a in srcs:
                    out.extend(R(a))
                return out
            if isinstance(f, ast.Attribute) and f.attr in self.ELEMENT_METHODS:
                return R(f.value)
            if isinstance(f, ast.Name) and f.id in ("iter", "next", "reversed", "enumerate", "zip", "list", "tuple", "sorted", "filter", "map") and expr.args:
                # views over their arguments' elements
                out = []
                for a in expr.args[-1:] if f.id in ("filter", "map") else expr.args:
                    out.extend(R(a))
                return out
            return [("call", expr)]
        return []

    def origin_calls(self, expr: ast.AST, through_calls: bool = True) -> List[ast.Call]:
        return [n for k, n in self.origins(expr, through_calls) if k == "call"]  # type: ignore[misc]

    def derives_from_call(self, expr: ast.AST, pred: Callable[[ast.Call], bool], through_calls: bool = True) -> Optional[ast.Call]:
        for c in self.origin_calls(expr, through_calls):
            if pred(c):
                return c
        return None

    def derives_from_param(self, expr: ast.AST, name: str, through_calls: bool = True) -> bool:
        for k, n in self.origins(expr, through_calls):
            if k == "param" and getattr(n, "arg", None) == name:
                return True
        return False

    def resolve_alias(self, expr: ast.AST, depth: int = 0) -> ast.AST:
        """follow a Name through a *unique* plain assignment (x = <expr>) to the expression"""
        if depth > 6 or not isinstance(expr, ast.Name):
            return expr
        ds = list(self.rd.defs(expr))
        if len(ds) == 1 and ds[0].kind in ("assign", "walrus") and ds[0].value is not None:
            return self.resolve_alias(ds[0].value, depth + 1)
        if len(ds) == 1 and ds[0].kind == "unpack" and isinstance(ds[0].value, (ast.Tuple, ast.List)) and ds[0].index and len(ds[0].index) == 1 \
                and ds[0].index[0] < len(ds[0].value.elts):
            return self.resolve_alias(ds[0].value.elts[ds[0].index[0]], depth + 1)
        return expr


# ------------------------------------------------------------------ typestate
class Violation(Exception):
    pass


_WORD = re.compile(r"[A-Za-z_][A-Za-z_0-9]*")


class Typestate:
    """Propagates (rule_state, facts) over the statements of one function to a fixpoint.
    `on_stmt(stmt, state) -> iterable of successor states` is called for every *simple* statement
    and for the header expression of compound statements (test / iter / with-items), in
    evaluation order.  Facts are literals learnt from branch tests; they prune branches whose test
    is already decided (propositional consistency) and are killed by assignments to names they
    mention.  Outcome kinds: fall, return, raise, break, continue.
    A witness trace (list of 'line: text') is kept for the first way each state was reached."""

    def __init__(self, on_stmt: Callable[[ast.AST, object, "Typestate"], Iterable[object]],
                 env: Optional[G.GuardEnv] = None, unroll_note: str = "fixpoint",
                 on_exception_edge: Optional[Callable[[ast.Try, object], Iterable[object]]] = None,
                 may_raise: Optional[Callable[[ast.stmt], bool]] = None,
                 on_iter: Optional[Callable[[ast.stmt, object], object]] = None):
        self.on_stmt = on_stmt
        self.on_iter = on_iter
        self.env = env or G.GuardEnv()
        self.trace: Dict[Tuple[object, FrozenSet], Tuple[str, ...]] = {}
        self.cur_trace: Tuple[str, ...] = ()
        self.may_raise = may_raise or (lambda st: False)
        self.steps = 0

    # state = (rule_state, facts frozenset[(atom,bool)])
    def run(self, body: Sequence[ast.stmt], init: object) -> Dict[str, Set[Tuple[object, FrozenSet]]]:
        start = (init, frozenset())
        self.trace[start] = ()
        return self._block(body, {start})

    # --- facts
    def _eval3(self, f, facts: Dict[str, bool]) -> Optional[bool]:
        k = f[0]
        if k == "T":
            return True
        if k == "F":
            return False
        if k == "atom":
            return facts.get(f[1])
        if k == "not":
            v = self._eval3(f[1], facts)
            return None if v is None else (not v)
        vals = [self._eval3(g, facts) for g in f[1:]]
        if k == "and":
            if any(v is False for v in vals):
                return False
            return True if all(v is True for v in vals) else None
        if any(v is True for v in vals):
            return True
        return False if all(v is False for v in vals) else None

    def _learn(self, f, want: bool, facts: Dict[str, bool]) -> None:
        k = f[0]
        if k == "atom":
            facts[f[1]] = want
        elif k == "not":
            self._learn(f[1], not want, facts)
        elif (k == "and" and want) or (k == "or" and not want):
            for g in f[1:]:
                self._learn(g, want, facts)
        elif k in ("and", "or"):
            # disjunctive information: learn what unit propagation gives
            und = [g for g in f[1:] if self._eval3(g, facts) is None]
            if len(und) == 1:
                self._learn(und[0], want, facts)

    def _branch(self, states, test: ast.AST, want: bool):
        f = G.formula(test, self.env)
        out = set()
        for (rs, facts) in states:
            fd = dict(facts)
            v = self._eval3(f, fd)
            if v is not None and v != want:
                continue
            self._learn(f, want, fd)
            ns = (rs, frozenset(fd.items()))
            self._note(ns, (rs, facts), f"{getattr(test, 'lineno', 0)}: [{'' if want else 'not '}{norm(test)}]")
            out.add(ns)
        return out

    def _kill(self, states, st: ast.AST):
        names = set()
        for n in ast.walk(st):
            if isinstance(n, ast.Name) and isinstance(n.ctx, (ast.Store, ast.Del)):
                names.add(n.id)
            elif isinstance(n, (ast.Attribute, ast.Subscript)) and isinstance(n.ctx, (ast.Store, ast.Del)):
                names.add(" ".join(unparse(n).split()))
                b = n
                while isinstance(b, (ast.Attribute, ast.Subscript)):
                    b = b.value
                if isinstance(b, ast.Name):
                    names.add("@" + b.id)
        if isinstance(st, ast.AugAssign):
            t = st.target
            names.add(" ".join(unparse(t).split()))
        if not names:
            return states
        out = set()
        for (rs, facts) in states:
            kept = []
            for (a, v) in facts:
                words = set(_WORD.findall(a))
                kill = False
                for nm in names:
                    if nm.startswith("@"):
                        continue
                    if nm in words or (not nm.isidentifier() and nm in a):
                        kill = True
                if not kill:
                    kept.append((a, v))
            ns = (rs, frozenset(kept))
            self._note(ns, (rs, facts), None)
            out.add(ns)
        return out

    def _note(self, new, old, text: Optional[str]):
        if new not in self.trace:
            t = self.trace.get(old, ())
            self.trace[new] = t + ((text,) if text else ())

    def _apply(self, states, node: ast.AST):
        out = set()
        for s in states:
            rs, facts = s
            self.steps += 1
            for nrs in self.on_stmt(node, rs, self):
                ns = (nrs, facts)
                if nrs != rs:
                    self._note(ns, s, f"{getattr(node, 'lineno', 0)}: {norm(node)[:110]}")
                else:
                    self._note(ns, s, None)
                out.add(ns)
        return out

    def witness(self, state) -> List[str]:
        return list(self.trace.get(state, ()))

    # --- structure
    def _block(self, stmts: Sequence[ast.stmt], states) -> Dict[str, Set]:
        res: Dict[str, Set] = {"fall": set(), "return": set(), "raise": set(), "break": set(), "continue": set()}
        cur = set(states)
        for st in stmts:
            if not cur:
                break
            r = self._stmt(st, cur)
            for k in ("return", "raise", "break", "continue"):
                res[k] |= r[k]
            cur = r["fall"]
        res["fall"] = cur
        return res

    def _stmt(self, st: ast.stmt, states) -> Dict[str, Set]:
        res: Dict[str, Set] = {"fall": set(), "return": set(), "raise": set(), "break": set(), "continue": set()}
        if isinstance(st, ast.If):
            states = self._apply(states, st.test)
            a = self._block(st.body, self._branch(states, st.test, True))
            b = self._block(st.orelse, self._branch(states, st.test, False))
            for k in res:
                res[k] = a[k] | b[k]
            return res
        if isinstance(st, (ast.For, ast.AsyncFor, ast.While)):
            is_for = not isinstance(st, ast.While)
            header = st.iter if is_for else st.test
            infinite = (not is_for) and isinstance(st.test, ast.Constant) and bool(st.test.value)
            seen_entry: Set = set()
            exit_states: Set = set()
            work = set(self._apply(states, header))
            if is_for:
                work = self._kill(work, st.target)
            rounds = 0
            while work - seen_entry:
                rounds += 1
                new = work - seen_entry
                seen_entry |= new
                if is_for:
                    exit_states |= new           # iterable may be exhausted
                    ent = new
                    if self.on_iter is not None:
                        ent2 = set()
                        for (rs, facts) in ent:
                            ns = (self.on_iter(st, rs), facts)
                            self._note(ns, (rs, facts), None)
                            ent2.add(ns)
                        ent = ent2
                else:
                    if not infinite:
                        exit_states |= self._branch(new, st.test, False)
                    ent = self._branch(new, st.test, True) if not infinite else new
                r = self._block(st.body, ent)
                res["return"] |= r["return"]
                res["raise"] |= r["raise"]
                res["fall"] |= r["break"]
                nxt = r["fall"] | r["continue"]
                if not is_for:
                    nxt = self._apply(nxt, header)
                else:
                    nxt = self._kill(nxt, st.target)
                work = nxt
                if rounds > 50:
                    break
            if st.orelse:
                o = self._block(st.orelse, exit_states)
                for k in ("return", "raise", "break", "continue"):
                    res[k] |= o[k]
                res["fall"] |= o["fall"]
            else:
                res["fall"] |= exit_states
            return res
        if isinstance(st, (ast.With, ast.AsyncWith)):
            for item in st.items:
                states = self._apply(states, item.context_expr)
            r = self._block(st.body, states)
            r2 = {k: set(v) for k, v in r.items()}
            # with-exit event
            for k in r2:
                r2[k] = self._apply_exit(r2[k], st)
            return r2
        if isinstance(st, ast.Try):
            body_states_all: Set = set(states)
            r = self._try_body(st.body, states, body_states_all)
            caught: Set = set()
            uncaught: Set = set()
            if st.handlers:
                caught |= r["raise"]
                # implicit exceptions from any statement of the body flagged by may_raise
                caught |= r.get("implicit", set())
                r["raise"] = set()
            hres: Dict[str, Set] = {"fall": set(), "return": set(), "raise": set(), "break": set(), "continue": set()}
            for h in st.handlers:
                hs = self._apply(caught, h)
                hr = self._block(h.body, hs)
                for k in hres:
                    hres[k] |= hr[k]
            fall = r["fall"]
            if st.orelse:
                o = self._block(st.orelse, fall)
                fall = o["fall"]
                for k in ("return", "raise", "break", "continue"):
                    hres[k] |= o[k]
            for k in ("return", "raise", "break", "continue"):
                res[k] = r[k] | hres[k]
            res["fall"] = fall | hres["fall"]
            if st.finalbody:
                out: Dict[str, Set] = {k: set() for k in res}
                for k, ss in res.items():
                    if not ss:
                        continue
                    f = self._block(st.finalbody, ss)
                    out[k] |= f["fall"]
                    for k2 in ("return", "raise", "break", "continue"):
                        out[k2] |= f[k2]
                return out
            return res
        if isinstance(st, ast.Return):
            if st.value is not None:
                states = self._apply(states, st.value)
            states = self._apply(states, st)
            res["return"] = states
            return res
        if isinstance(st, ast.Raise):
            states = self._apply(states, st)
            res["raise"] = states
            return res
        if isinstance(st, ast.Break):
            res["break"] = self._apply(states, st)
            return res
        if isinstance(st, ast.Continue):
            res["continue"] = self._apply(states, st)
            return res
        if isinstance(st, ast.Assert):
            states = self._apply(states, st)
            res["fall"] = self._branch(states, st.test, True)
            return res
        if isinstance(st, (ast.FunctionDef, ast.AsyncFunctionDef, ast.ClassDef)):
            res["fall"] = set(states)
            return res
        # simple statement
        states = self._apply(states, st)
        k = _abrupt_stmt(st)
        states = self._kill(states, st)
        if isinstance(st, ast.Assign) and len(st.targets) == 1 and isinstance(st.targets[0], ast.Name) and isinstance(st.value, ast.Constant) \
                and isinstance(st.value.value, bool):
            # flag = True / False: the flag's truth is known until it is reassigned
            learnt = set()
            for (rs, facts) in states:
                fd = dict(facts)
                self._learn(G.formula(st.targets[0], self.env), st.value.value, fd)
                ns = (rs, frozenset(fd.items()))
                self._note(ns, (rs, facts), None)
                learnt.add(ns)
            states = learnt
        if k == "raise":
            res["raise"] = states
        else:
            res["fall"] = states
        return res

    def _apply_exit(self, states, st):
        return states

    def _try_body(self, stmts, states, acc) -> Dict[str, Set]:
        res: Dict[str, Set] = {"fall": set(), "return": set(), "raise": set(), "break": set(), "continue": set(),
                               "implicit": set()}
        cur = set(states)
        for st in stmts:
            if not cur:
                break
            if self.may_raise(st):
                res["implicit"] |= cur
            r = self._stmt(st, cur)
            for k in ("return", "raise", "break", "continue"):
                res[k] |= r[k]
            cur = r["fall"]
            if self.may_raise(st):
                pass
        res["fall"] = cur
        return res
