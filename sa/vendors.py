"""Vendor table read from annet/vendors/library/*.py (constants only) and rule-text inventory."""
from __future__ import annotations

import ast
import os
from typing import Dict, List, Optional, Tuple

from .repo import AnchorError, Module, Repo, dotted, walk_no_nested
from . import dsl


class Vendor:
    def __init__(self, name: str, mod: Module, cls: ast.ClassDef):
        self.name = name
        self.mod = mod
        self.cls = cls
        self.match: List[str] = []
        self.reverse: Optional[str] = None
        self.exit: Optional[str] = None
        self.hardware: Optional[str] = None
        self.formatter: Optional[str] = None
        self.diff: Dict[bool, str] = {False: "common.default_diff", True: "common.ordered_diff"}

    def __repr__(self):
        return f"Vendor({self.name}, match={self.match}, reverse={self.reverse!r}, exit={self.exit!r}, fmt={self.formatter})"


def _ret_const(fn: ast.FunctionDef):
    rets = [n for n in walk_no_nested(fn) if isinstance(n, ast.Return) and n.value is not None]
    return rets


def load_vendors(repo: Repo) -> Dict[str, Vendor]:
    out: Dict[str, Vendor] = {}
    for mname, m in repo.modules.items():
        if not mname.startswith("annet.vendors.library."):
            continue
        for d in m.tree.body:
            if not isinstance(d, ast.ClassDef):
                continue
            if not any((dotted(dec) or "").endswith("register") for dec in d.decorator_list):
                continue
            name = None
            for st in d.body:
                if isinstance(st, ast.Assign) and any(isinstance(t, ast.Name) and t.id == "NAME" for t in st.targets) \
                        and isinstance(st.value, ast.Constant):
                    name = st.value.value
            if not name:
                raise AnchorError(f"vendor class {d.name} in {m.rel} has no constant NAME")
            v = Vendor(name, m, d)
            for st in d.body:
                if not isinstance(st, ast.FunctionDef):
                    continue
                rets = _ret_const(st)
                if st.name == "match" and rets and isinstance(rets[0].value, ast.List):
                    v.match = [e.value for e in rets[0].value.elts if isinstance(e, ast.Constant)]
                elif st.name in ("reverse", "exit") and rets and isinstance(rets[0].value, ast.Constant):
                    setattr(v, st.name, rets[0].value.value)
                elif st.name == "hardware" and rets and isinstance(rets[0].value, ast.Call) and rets[0].value.args \
                        and isinstance(rets[0].value.args[0], ast.Constant):
                    v.hardware = rets[0].value.args[0].value
                elif st.name == "make_formatter":
                    ctor = [n for n in walk_no_nested(st) if isinstance(n, ast.Call) and (dotted(n.func) or "").endswith("Formatter")]
                    if ctor:
                        v.formatter = dotted(ctor[0].func)
                    elif st.returns is not None and dotted(st.returns):
                        v.formatter = dotted(st.returns)
                elif st.name == "diff":
                    # return "x" if order else "y"
                    for r in rets:
                        if isinstance(r.value, ast.IfExp) and isinstance(r.value.body, ast.Constant) and isinstance(r.value.orelse, ast.Constant):
                            v.diff = {True: r.value.body.value, False: r.value.orelse.value}
                        elif isinstance(r.value, ast.Constant):
                            v.diff = {True: r.value.value, False: r.value.value}
            if v.reverse is None or v.exit is None or v.formatter is None:
                raise AnchorError(f"vendor {name}: reverse/exit/make_formatter not constant-resolvable")
            out[name] = v
    return out


def vendor_aliases(repo: Repo) -> Dict[str, str]:
    m = repo.module("annet.annlib.rbparser.platform")
    v = m.toplevel_assign("VENDOR_ALIASES")
    if not isinstance(v, ast.Dict):
        raise AnchorError("VENDOR_ALIASES dict literal not found")
    return {k.value: val.value for k, val in zip(v.keys, v.values) if isinstance(k, ast.Constant) and isinstance(val, ast.Constant)}


TEXT_DIR = "annet/rulebook/texts"


class RuleText:
    def __init__(self, rel: str, kind: str, vendor: str, text: str):
        self.rel = rel
        self.kind = kind   # rul | order | deploy
        self.vendor = vendor
        self.text = text
        self.lines, self.mako_problems = dsl.read_lines(text)
        self.rows, _ = dsl.build_tree(self.lines)

    def all_rows(self):
        return list(dsl.walk_rows(self.rows))


def load_rule_texts(repo: Repo) -> List[RuleText]:
    d = os.path.join(repo.root, TEXT_DIR)
    if not os.path.isdir(d):
        raise AnchorError(f"{TEXT_DIR} not found")
    out = []
    for fn in sorted(os.listdir(d)):
        base, _, ext = fn.rpartition(".")
        if ext in ("rul", "order", "deploy"):
            with open(os.path.join(d, fn), encoding="utf-8") as f:
                out.append(RuleText(f"{TEXT_DIR}/{fn}", ext, base, f.read()))
    return out
