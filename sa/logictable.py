"""Bucket-emptiness evaluator: abstract interpretation of annet's common patch-logic functions.
Domain: each diff bucket is a tuple of *source* buckets of the original diff (concatenation);
a valuation says which original buckets are non-empty (+ free atoms for anything else).
Result: the sequence of emissions  REV | ROW(source-op, children-of-source) | OTHER."""
from __future__ import annotations

import ast
import itertools
from typing import Dict, List, Optional, Tuple

from .repo import AnchorError, Module, Repo, norm, unparse
from .util import op_const

OPS = ("ADDED", "REMOVED", "AFFECTED", "MOVED", "UNCHANGED")


class Unknown(AnchorError):
    pass


class Emission:
    def __init__(self, kind: str, flag: Optional[bool], src: Optional[str], children: Optional[str], node: ast.AST):
        self.kind, self.flag, self.src, self.children, self.node = kind, flag, src, children, node

    def __repr__(self):
        if self.kind == "REV":
            return "REV"
        if self.kind == "ROW":
            return f"ROW({self.src}{'+children' if self.children else ''})"
        return "OTHER"


class LogicEval:
    def __init__(self, repo: Repo, mod: Module):
        self.repo = repo
        self.mod = mod
        self.free_atoms: List[str] = []

    # abstract diff: op -> tuple of source ops
    def run(self, fn: ast.FunctionDef, val: Dict[str, bool], free: Dict[str, bool]) -> List[Emission]:
        self.val = val
        self.free = free
        self.seen_free: List[str] = []
        diff = {op: (op,) for op in OPS}
        env = {"diff": diff}
        pn = [a.arg for a in fn.args.args]
        if len(pn) < 3:
            raise Unknown(f"{fn.name}: unexpected signature")
        self.names = {"rule": pn[0], "key": pn[1], "diff": pn[2]}
        out: List[Emission] = []
        self._block(fn.body, {pn[2]: diff, "__keyvar__": None}, out, fn, depth=0)
        return out

    # ---- expression evaluation
    def _deref(self, e: ast.AST, env, depth=0):
        while isinstance(e, ast.Name) and isinstance(env.get(e.id), tuple) and len(env[e.id]) == 2 and env[e.id][0] == "expr" and depth < 8:
            e = env[e.id][1]
            depth += 1
        if isinstance(e, ast.Call) and isinstance(e.func, ast.Name) and e.func.id == "bool" and len(e.args) == 1:
            return self._deref(e.args[0], env, depth + 1)
        return e

    def _bucket(self, e: ast.AST, env) -> Optional[Tuple[str, ...]]:
        """abstract value of an expression denoting a bucket list"""
        e = self._deref(e, env)
        if isinstance(e, ast.Subscript):
            d = self._diffobj(e.value, env)
            if d is not None:
                k = self._opkey(e.slice, env)
                if k is None:
                    raise Unknown(f"bucket key not constant: {norm(e)}")
                return d.get(k, ())
        if isinstance(e, ast.Call) and isinstance(e.func, ast.Attribute) and e.func.attr == "get" and e.args:
            d = self._diffobj(e.func.value, env)
            if d is not None:
                k = self._opkey(e.args[0], env)
                if k is None:
                    raise Unknown(f"bucket key not constant: {norm(e)}")
                return d.get(k, ())
        if isinstance(e, ast.List) and not e.elts:
            return ()
        if isinstance(e, ast.Name) and isinstance(env.get(e.id), tuple) and not (len(env[e.id]) == 2 and env[e.id][0] == "expr"):
            return env[e.id]
        return None

    def _diffobj(self, e: ast.AST, env) -> Optional[Dict[str, Tuple[str, ...]]]:
        if isinstance(e, ast.Name) and isinstance(env.get(e.id), dict):
            return env[e.id]
        if isinstance(e, ast.Dict) and e.keys and all(k is not None and op_const(k) for k in e.keys):
            # a diff written out in place: {Op.AFFECTED: diff[Op.REMOVED], Op.ADDED: [], ...}
            bs = [self._bucket(x, env) for x in e.values]
            if all(b is not None for b in bs):
                return {op_const(k): b for k, b in zip(e.keys, bs)}
        return None

    def _opkey(self, e: ast.AST, env) -> Optional[str]:
        k = op_const(e)
        if k:
            return k
        if isinstance(e, ast.Name) and isinstance(env.get(e.id), str):
            return env[e.id]
        if isinstance(e, ast.IfExp):
            return self._opkey(e.body if self._truth(e.test, env) else e.orelse, env)
        return None

    def _nonempty(self, b: Tuple[str, ...]) -> bool:
        return any(self.val.get(s, False) for s in b)

    def _first_src(self, b: Tuple[str, ...]) -> Optional[str]:
        for s in b:
            if self.val.get(s, False):
                return s
        return None

    def _truth(self, e: ast.AST, env) -> bool:
        e = self._deref(e, env)
        if isinstance(e, ast.BoolOp):
            vals = [self._truth(v, env) for v in e.values]
            return all(vals) if isinstance(e.op, ast.And) else any(vals)
        if isinstance(e, ast.UnaryOp) and isinstance(e.op, ast.Not):
            return not self._truth(e.operand, env)
        if isinstance(e, ast.Constant):
            return bool(e.value)
        b = self._bucket(e, env)
        if b is not None:
            return self._nonempty(b)
        if isinstance(e, ast.Compare) and len(e.ops) == 1 and isinstance(e.left, ast.Call) and isinstance(e.left.func, ast.Name) \
                and e.left.func.id == "len" and isinstance(e.comparators[0], ast.Constant):
            b = self._bucket(e.left.args[0], env)
            if b is not None:
                n = e.comparators[0].value
                ne = self._nonempty(b)
                if isinstance(e.ops[0], ast.Gt) and n == 0:
                    return ne
                if isinstance(e.ops[0], ast.Eq) and n == 0:
                    return not ne
        # free atom (e.g. diff[Op.REMOVED][0]["children"])
        txt = norm(e)
        if txt not in self.free_atoms:
            self.free_atoms.append(txt)
        if txt not in self.seen_free:
            self.seen_free.append(txt)
        return self.free.get(txt, False)

    # ---- statements
    def _block(self, stmts, env, out: List[Emission], fn, depth) -> bool:
        """returns False when a `return` was executed"""
        for st in stmts:
            if isinstance(st, ast.Expr) and isinstance(st.value, ast.Constant):
                continue  # docstring
            if isinstance(st, ast.Pass):
                continue
            if isinstance(st, ast.Return):
                if st.value is not None:
                    raise Unknown(f"{fn.name}: return with value at line {st.lineno}")
                return False
            if isinstance(st, ast.Assert):
                continue
            if isinstance(st, ast.If):
                if self._truth(st.test, env):
                    if not self._block(st.body, env, out, fn, depth):
                        return False
                else:
                    if not self._block(st.orelse, env, out, fn, depth):
                        return False
                continue
            if isinstance(st, ast.For):
                # for op in diff.keys(): new_diff[op] = []      (loop form of {op: [] for op in diff.keys()})
                if isinstance(st.target, ast.Name) and len(st.body) == 1 and isinstance(st.body[0], ast.Assign) and isinstance(st.body[0].targets[0], ast.Subscript) \
                        and isinstance(st.body[0].value, ast.List) and not st.body[0].value.elts and norm(st.body[0].targets[0].slice) == st.target.id \
                        and isinstance(st.body[0].targets[0].value, ast.Name) and isinstance(env.get(st.body[0].targets[0].value.id), dict) \
                        and (self._diffobj(st.iter, env) is not None or (isinstance(st.iter, ast.Call) and isinstance(st.iter.func, ast.Attribute) and st.iter.func.attr == "keys"
                                                                         and self._diffobj(st.iter.func.value, env) is not None)):
                    env[st.body[0].targets[0].value.id] = {op: () for op in OPS}
                    continue
                if isinstance(st.iter, (ast.List, ast.Tuple)) and isinstance(st.target, ast.Name):
                    only_assert = all(isinstance(b, (ast.Assert, ast.Expr, ast.Pass)) and not _has_yield(b) for b in st.body)
                    if only_assert:
                        continue
                    for el in st.iter.elts:
                        k = op_const(el)
                        if k is None:
                            raise Unknown(f"{fn.name}: loop over non-Op literal at line {st.lineno}")
                        env2 = env
                        env2[st.target.id] = k
                        if not self._block(st.body, env2, out, fn, depth):
                            return False
                    continue
                if not _has_yield(st) and self._bucket(st.iter, env) is not None and not any(
                        isinstance(n, (ast.Assign, ast.AugAssign, ast.Delete)) and any(isinstance(x, ast.Name) and isinstance(env.get(x.id), dict) for x in ast.walk(n))
                        for b in st.body for n in ast.walk(b)):
                    # a pass over the items of one bucket that emits nothing and rebinds no bucket (side effects on the items are C01.R7's business)
                    continue
                raise Unknown(f"{fn.name}: unsupported loop at line {st.lineno}: {norm(st)[:60]}")
            if isinstance(st, ast.Assign) and len(st.targets) == 1:
                t = st.targets[0]
                dn = self.names["diff"]
                mentions_diff = any(isinstance(n, ast.Name) and isinstance(env.get(n.id), (dict, tuple)) for n in ast.walk(st.value))
                if isinstance(t, (ast.Name, ast.Tuple)) and not mentions_diff and not isinstance(st.value, (ast.Dict, ast.DictComp, ast.IfExp)) \
                        and not op_const(st.value):
                    # opaque local (e.g. `(rp_name, node_id) = key`)
                    for n in ast.walk(t):
                        if isinstance(n, ast.Name):
                            env[n.id] = None
                    continue
                # key = Op.ADDED if diff.get(Op.ADDED) else Op.MOVED
                if isinstance(t, ast.Name):
                    v = st.value
                    if isinstance(v, ast.IfExp) and op_const(v.body) and op_const(v.orelse):
                        env[t.id] = op_const(v.body) if self._truth(v.test, env) else op_const(v.orelse)
                        continue
                    if op_const(v):
                        env[t.id] = op_const(v)
                        continue
                    # new_diff = {op: [] for op in diff.keys()}
                    if isinstance(v, ast.DictComp) and isinstance(v.value, ast.List) and not v.value.elts:
                        env[t.id] = {op: () for op in OPS}
                        continue
                    if isinstance(v, ast.Dict) and not v.keys and t.id not in env:
                        env[t.id] = {}
                        continue
                    if isinstance(v, ast.Dict) and all(isinstance(x, ast.List) and not x.elts for x in v.values):
                        env[t.id] = {op_const(k) or "?": () for k in v.keys}
                        continue
                    if isinstance(v, ast.Dict) and v.keys and all(k is not None and op_const(k) for k in v.keys):
                        # {Op.AFFECTED: diff[Op.REMOVED], Op.ADDED: [], ...}
                        bs = [self._bucket(x, env) for x in v.values]
                        if all(b_ is not None for b_ in bs):
                            env[t.id] = {op_const(k): b_ for k, b_ in zip(v.keys, bs)}
                            continue
                    b = self._bucket(v, env)
                    if b is not None:
                        env[t.id] = b
                        continue
                    # any other local: remember the expression and evaluate it where it is used
                    env[t.id] = ("expr", v)
                    continue
                if isinstance(t, ast.Subscript):
                    d = self._diffobj(t.value, env)
                    if d is not None:
                        k = self._opkey(t.slice, env)
                        b = self._bucket(st.value, env)
                        if k is None or b is None:
                            raise Unknown(f"{fn.name}: unsupported bucket store at line {st.lineno}: {norm(st)[:70]}")
                        d[k] = b
                        continue
                    # rule["reverse"] = ...   (writes to the private copy of the rule)
                    if isinstance(t.value, ast.Name) and t.value.id == self.names["rule"]:
                        continue
                raise Unknown(f"{fn.name}: unsupported assignment at line {st.lineno}: {norm(st)[:70]}")
            if isinstance(st, ast.AugAssign) and isinstance(st.target, ast.Subscript) and isinstance(st.op, ast.Add):
                d = self._diffobj(st.target.value, env)
                k = self._opkey(st.target.slice, env) if d is not None else None
                b = self._bucket(st.value, env)
                if d is None or k is None or b is None:
                    raise Unknown(f"{fn.name}: unsupported augmented assignment at line {st.lineno}")
                d[k] = d.get(k, ()) + b
                continue
            if isinstance(st, ast.Expr) and isinstance(st.value, ast.Yield):
                out.append(self._emission(st.value.value, env, fn))
                continue
            if isinstance(st, ast.Expr) and isinstance(st.value, ast.YieldFrom):
                call = st.value.value
                if not isinstance(call, ast.Call):
                    raise Unknown(f"{fn.name}: yield from non-call at line {st.lineno}")
                r = self.repo.resolve_call(self.mod, call)
                if not r or not isinstance(r[2], ast.FunctionDef):
                    raise Unknown(f"{fn.name}: callee of `{norm(call)[:50]}` not resolved")
                if depth > 4:
                    raise Unknown("inlining too deep")
                callee = self.repo.canon(r[0], r[2])
                if len(call.args) < 3:
                    raise Unknown(f"{fn.name}: callee diff argument not positional at line {st.lineno}")
                d = self._diffobj(call.args[2], env)
                if d is None:
                    raise Unknown(f"{fn.name}: diff argument `{norm(call.args[2])}` is not a tracked diff")
                cpn = [a.arg for a in callee.args.args]
                sub = LogicEval(self.repo, r[0])
                sub.val, sub.free, sub.seen_free, sub.free_atoms = self.val, self.free, self.seen_free, self.free_atoms
                sub.names = {"rule": cpn[0], "key": cpn[1], "diff": cpn[2]}
                cenv = {cpn[2]: {k: v for k, v in d.items()}}
                sub._block(callee.body, cenv, out, callee, depth + 1)
                continue
            raise Unknown(f"{fn.name}: unsupported statement at line {st.lineno}: {norm(st)[:70]}")
        return True

    def _emission(self, v: Optional[ast.AST], env, fn) -> Emission:
        if not isinstance(v, ast.Tuple) or len(v.elts) != 3:
            return Emission("OTHER", None, None, None, v or fn)
        flag_e, text_e, ch_e = v.elts
        flag_e, text_e, ch_e = self._deref(flag_e, env), self._deref(text_e, env), self._deref(ch_e, env)
        flag = flag_e.value if isinstance(flag_e, ast.Constant) else None
        # REV: rule["reverse"].format(*key)
        if isinstance(text_e, ast.Call) and isinstance(text_e.func, ast.Attribute) and text_e.func.attr == "format" \
                and isinstance(text_e.func.value, ast.Subscript) and isinstance(text_e.func.value.value, ast.Name) \
                and text_e.func.value.value.id == self.names["rule"] and isinstance(text_e.func.value.slice, ast.Constant) \
                and text_e.func.value.slice.value == "reverse":
            return Emission("REV", flag, None, None, v)
        # ROW: diff[K][0]["row"]
        src = self._item_field(text_e, env, "row")
        if src is not None:
            ch = self._item_field(ch_e, env, "children")
            return Emission("ROW", flag, src, ch, v)
        return Emission("OTHER", flag, None, None, v)

    def _item_field(self, e: ast.AST, env, field: str) -> Optional[str]:
        e = self._deref(e, env)
        if isinstance(e, ast.Subscript) and isinstance(e.slice, ast.Constant) and e.slice.value == field:
            inner = self._deref(e.value, env)
            if inner is not e.value:
                e = ast.Subscript(value=inner, slice=e.slice, ctx=ast.Load())
        if isinstance(e, ast.Subscript) and isinstance(e.slice, ast.Constant) and e.slice.value == field \
                and isinstance(e.value, ast.Subscript) and isinstance(e.value.slice, ast.Constant) and e.value.slice.value == 0:
            b = self._bucket(e.value.value, env)
            if b is not None:
                return self._first_src(b) or "EMPTY"
        return None


def _has_yield(n: ast.AST) -> bool:
    return any(isinstance(x, (ast.Yield, ast.YieldFrom)) for x in ast.walk(n))


def table(repo: Repo, mod: Module, fn: ast.FunctionDef):
    """-> list of (valuation dict over ADDED/REMOVED/AFFECTED/MOVED, free dict, emissions)"""
    rows = []
    if getattr(fn, "_canon_of", None) is None:
        fn = repo.canon(mod, fn)
    ev = LogicEval(repo, mod)
    for bits in itertools.product([False, True], repeat=4):
        val = dict(zip(("ADDED", "REMOVED", "AFFECTED", "MOVED"), bits))
        val["UNCHANGED"] = False
        # discover free atoms on the fly: start with all-false, then enumerate the atoms seen
        pending = [dict()]
        done = set()
        while pending:
            free = pending.pop()
            key = tuple(sorted(free.items()))
            if key in done:
                continue
            done.add(key)
            em = ev.run(fn, dict(val), free)
            rows.append((dict(val), dict(free), em))
            for a in ev.seen_free:
                if a not in free:
                    for b in (False, True):
                        nf = dict(free)
                        nf[a] = b
                        pending.append(nf)
        # remove the partial-free duplicates: keep only rows whose free dict mentions all atoms seen
    # normalise: keep, per valuation, rows with maximal free assignment
    best = {}
    for val, free, em in rows:
        k = tuple(sorted(val.items()))
        best.setdefault(k, [])
        best[k].append((free, em))
    out = []
    for k, lst in best.items():
        mx = max(len(f) for f, _ in lst)
        seen = set()
        for f, em in lst:
            if len(f) == mx:
                fk = tuple(sorted(f.items()))
                if fk not in seen:
                    seen.add(fk)
                    out.append((dict(k), f, em))
    return out


def vname(val: Dict[str, bool], free: Dict[str, bool]) -> str:
    s = "".join(f"{n[0] if n != 'AFFECTED' else 'F'}{int(val[n])}" for n in ("ADDED", "REMOVED", "AFFECTED", "MOVED"))
    if free:
        s += "|" + ",".join(f"{a}={int(v)}" for a, v in sorted(free.items()))
    return s
