"""Local-name normalisation (alpha-equivalence): rules name the locals of the anchored functions as they are spelled on the reference
tree; a maintainer may rename any local without changing behaviour.  Every local gets a *signature* that does not mention local names:
how it is defined (the shapes of its defining expressions with all locals blanked) and, when that is ambiguous, how it is used (the shapes
of the statements it occurs in, with itself marked).  `tools/gen_refnames.py` records signature -> name for every function of the reference
tree in reference_names.json; before a function is analysed, locals whose signature matches a recorded one uniquely are renamed back to the
recorded spelling.  A local that does not match keeps its name (the rules then have to cope, as before): the table never changes a verdict
on code it does not recognise, it only removes the dependence on spelling where the code is alpha-equivalent."""
from __future__ import annotations

import ast
import hashlib
import json
import os
from typing import Dict, List, Optional, Set, Tuple

FuncT = (ast.FunctionDef, ast.AsyncFunctionDef)
VERIF = os.path.dirname(os.path.dirname(os.path.abspath(__file__)))


def own_scope(fn) -> Tuple[Set[str], Set[str]]:
    """(parameters, names bound in the function's own scope)"""
    a = fn.args
    params = {x.arg for x in a.args + a.kwonlyargs + a.posonlyargs}
    if a.vararg:
        params.add(a.vararg.arg)
    if a.kwarg:
        params.add(a.kwarg.arg)
    bound: Set[str] = set()
    declared: Set[str] = set()

    def walk(n):
        for ch in ast.iter_child_nodes(n):
            if isinstance(ch, FuncT + (ast.ClassDef,)):
                continue
            if isinstance(ch, (ast.Lambda, ast.ListComp, ast.SetComp, ast.DictComp, ast.GeneratorExp)):
                continue
            if isinstance(ch, (ast.Global, ast.Nonlocal)):
                declared.update(ch.names)
            if isinstance(ch, ast.Name) and isinstance(ch.ctx, (ast.Store, ast.Del)):
                bound.add(ch.id)
            if isinstance(ch, ast.ExceptHandler) and ch.name:
                bound.add(ch.name)
            walk(ch)
    walk(fn)
    imported = set()
    for x in ast.walk(fn):
        if isinstance(x, (ast.Import, ast.ImportFrom)):
            for al in x.names:
                imported.add((al.asname or al.name).split(".")[0])
    return params, bound - params - declared - imported


def _nested_bound(fn) -> Set[str]:
    out: Set[str] = set()
    for n in ast.walk(fn):
        if n is fn:
            continue
        if isinstance(n, FuncT + (ast.Lambda,)):
            a = n.args
            out |= {x.arg for x in a.args + a.kwonlyargs + a.posonlyargs}
            if a.vararg:
                out.add(a.vararg.arg)
            if a.kwarg:
                out.add(a.kwarg.arg)
            if isinstance(n, FuncT):
                out |= own_scope(n)[1]
        if isinstance(n, (ast.ListComp, ast.SetComp, ast.DictComp, ast.GeneratorExp)):
            for g in n.generators:
                for t in ast.walk(g.target):
                    if isinstance(t, ast.Name):
                        out.add(t.id)
    return out


class _Blank(ast.NodeTransformer):
    def __init__(self, locals_: Set[str], me: Optional[str]):
        self.locals = locals_
        self.me = me

    def visit_Name(self, node):
        if node.id == self.me:
            return ast.Name(id="SELF__", ctx=ast.Load())
        if node.id in self.locals:
            return ast.Name(id="LOC__", ctx=ast.Load())
        return ast.Name(id=node.id, ctx=ast.Load())

    def visit_ExceptHandler(self, node):
        self.generic_visit(node)
        if node.name == self.me:
            node.name = "SELF__"
        elif node.name in self.locals:
            node.name = "LOC__"
        return node


def _copy(n):
    if isinstance(n, ast.AST):
        new = n.__class__()
        for f, v in ast.iter_fields(n):
            if isinstance(v, list):
                setattr(new, f, [_copy(x) for x in v])
            else:
                setattr(new, f, _copy(v) if isinstance(v, ast.AST) else v)
        return new
    return n


def _shape(node: ast.AST, locals_: Set[str], me: Optional[str]) -> str:
    c = _Blank(locals_, me).visit(_copy(node))
    try:
        txt = ast.unparse(c)
    except Exception:
        txt = ast.dump(c)
    return " ".join(txt.split())


def _header(st: ast.stmt) -> ast.AST:
    """the part of a compound statement that is evaluated at its head"""
    if isinstance(st, (ast.If, ast.While)):
        return st.test
    if isinstance(st, (ast.For, ast.AsyncFor)):
        return ast.Tuple(elts=[st.target, st.iter], ctx=ast.Load())
    if isinstance(st, (ast.With, ast.AsyncWith)):
        return ast.Tuple(elts=[x for it in st.items for x in ([it.context_expr] + ([it.optional_vars] if it.optional_vars else []))], ctx=ast.Load())
    if isinstance(st, ast.Try):
        return ast.Constant(value="try")
    return st


def signatures(fn) -> Dict[str, str]:
    """local name -> signature key (only locals whose key is unique within the function)"""
    params, locs = own_scope(fn)
    locs = {x for x in locs if x not in _nested_bound(fn)}
    if not locs:
        return {}
    defs: Dict[str, List[str]] = {x: [] for x in locs}
    uses: Dict[str, List[str]] = {x: [] for x in locs}

    def targets(t, path=()):
        if isinstance(t, ast.Name):
            yield t.id, path
        elif isinstance(t, (ast.Tuple, ast.List)):
            for i, e in enumerate(t.elts):
                yield from targets(e, path + (i,))
        elif isinstance(t, ast.Starred):
            yield from targets(t.value, path + ("*",))

    def visit(stmts):
        for st in stmts:
            if isinstance(st, FuncT + (ast.ClassDef,)):
                continue
            head = _header(st)
            names_here = {n.id for n in ast.walk(head) if isinstance(n, ast.Name)} if not isinstance(head, ast.stmt) or True else set()
            for x in names_here & locs:
                uses[x].append(type(st).__name__ + ":" + _shape(head, locs, x))
            if isinstance(st, ast.Assign):
                for t in st.targets:
                    for nm, path in targets(t):
                        if nm in locs:
                            defs[nm].append(f"={list(path)}:" + _shape(st.value, locs, nm))
            elif isinstance(st, ast.AnnAssign) and isinstance(st.target, ast.Name) and st.target.id in locs:
                defs[st.target.id].append("=[]:" + (_shape(st.value, locs, st.target.id) if st.value is not None else "<ann>"))
            elif isinstance(st, ast.AugAssign) and isinstance(st.target, ast.Name) and st.target.id in locs:
                defs[st.target.id].append(f"aug{type(st.op).__name__}:" + _shape(st.value, locs, st.target.id))
            elif isinstance(st, (ast.For, ast.AsyncFor)):
                for nm, path in targets(st.target):
                    if nm in locs:
                        defs[nm].append(f"for{list(path)}:" + _shape(st.iter, locs, nm))
            elif isinstance(st, (ast.With, ast.AsyncWith)):
                for it in st.items:
                    if it.optional_vars is not None:
                        for nm, path in targets(it.optional_vars):
                            if nm in locs:
                                defs[nm].append(f"with{list(path)}:" + _shape(it.context_expr, locs, nm))
            elif isinstance(st, ast.Try):
                for h in st.handlers:
                    if h.name and h.name in locs:
                        defs[h.name].append("except:" + (_shape(h.type, locs, h.name) if h.type is not None else ""))
            for field in ("body", "orelse", "finalbody"):
                sub = getattr(st, field, None)
                if isinstance(sub, list) and sub and isinstance(sub[0], ast.stmt):
                    visit(sub)
            if isinstance(st, ast.Try):
                for h in st.handlers:
                    visit(h.body)
    visit(fn.body)
    # walrus targets
    for n in ast.walk(fn):
        if isinstance(n, ast.NamedExpr) and isinstance(n.target, ast.Name) and n.target.id in locs:
            defs[n.target.id].append(":=:" + _shape(n.value, locs, n.target.id))
    level1 = {x: "|".join(sorted(defs[x])) for x in locs}
    out: Dict[str, str] = {}
    groups: Dict[str, List[str]] = {}
    for x, k in level1.items():
        groups.setdefault(k, []).append(x)
    for k, xs in groups.items():
        if len(xs) == 1:
            out[xs[0]] = "D:" + k
            continue
        # ambiguous by definition: add the uses
        sub: Dict[str, List[str]] = {}
        for x in xs:
            k2 = k + "##" + "|".join(sorted(uses[x]))
            sub.setdefault(k2, []).append(x)
        for k2, ys in sub.items():
            if len(ys) == 1:
                out[ys[0]] = "U:" + k2
    return {x: hashlib.sha1(k.encode("utf-8")).hexdigest()[:20] for x, k in out.items()}


class _Rename(ast.NodeTransformer):
    def __init__(self, mapping: Dict[str, str]):
        self.m = mapping

    def visit_Name(self, node):
        if node.id in self.m:
            node.id = self.m[node.id]
        return node

    def visit_ExceptHandler(self, node):
        if node.name in self.m:
            node.name = self.m[node.name]
        self.generic_visit(node)
        return node


_TABLE: Optional[Dict[str, Dict[str, Dict[str, str]]]] = None


def table() -> Dict[str, Dict[str, Dict[str, str]]]:
    global _TABLE
    if _TABLE is None:
        p = os.path.join(VERIF, "reference_names.json")
        if os.path.isfile(p) and not os.environ.get("VF_NO_REFNAMES"):
            with open(p, encoding="utf-8") as f:
                _TABLE = json.load(f)
        else:
            _TABLE = {}
    return _TABLE


def restore(modname: str, qual: str, fn) -> int:
    """rename (in place, on a private copy handed in by the caller) the locals of `fn` back to the reference spelling; returns how many were renamed"""
    ref = table().get(modname, {}).get(qual)
    if not ref:
        return 0
    sig = signatures(fn)
    params, locs = own_scope(fn)
    all_names = {n.id for n in ast.walk(fn) if isinstance(n, ast.Name)} | params
    mapping: Dict[str, str] = {}
    for cur, key in sig.items():
        want = ref.get(key)
        if want and want != cur:
            mapping[cur] = want
    if not mapping:
        return 0
    # a reference name already in use by something that keeps its name would be captured: drop those renames (iterate to a fixpoint)
    changed = True
    while changed:
        changed = False
        for cur, want in list(mapping.items()):
            if want in all_names and want not in mapping:
                del mapping[cur]
                changed = True
        if len(set(mapping.values())) != len(mapping):
            seen: Dict[str, str] = {}
            for cur, want in list(mapping.items()):
                if want in seen:
                    del mapping[cur]
                    changed = True
                else:
                    seen[want] = cur
    if mapping:
        for st in fn.body:
            _Rename(mapping).visit(st)
    return len(mapping)
