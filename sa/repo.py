"""E1 -- repository model: parses every *.py of the analysed tree, indexes defs/classes,
resolves imports, class MROs and callees.  Never imports or executes annet."""
from __future__ import annotations

import ast
import os
from typing import Dict, Iterator, List, Optional, Tuple


class AnchorError(Exception):
    """An anchored construct (function, class, table, file, idiom) could not be located:
    the analysis cannot decide -> exit 2 (never a VIOLATION, never a silent pass)."""


PACKAGES = ("annet", "annet_generators")


def repo_root() -> str:
    return os.environ.get("VF_REPO", "/repo")


class Module:
    def __init__(self, name: str, path: str, rel: str, src: str):
        self.name = name
        self.path = path
        self.rel = rel
        self.src = src
        self.lines = src.splitlines()
        self.tree = ast.parse(src, filename=path)
        self.is_pkg = path.endswith("__init__.py")
        for node in ast.walk(self.tree):
            for ch in ast.iter_child_nodes(node):
                ch._parent = node  # type: ignore[attr-defined]
        self.tree._parent = None  # type: ignore[attr-defined]
        self.imports: Dict[str, Tuple[str, Optional[str]]] = {}  # local -> (module, symbol|None)
        self.star_imports: List[str] = []
        self._index_imports()
        self.defs: Dict[str, ast.AST] = {}
        self._index_defs(self.tree, "")

    # -----
    def _pkg(self) -> str:
        return self.name if self.is_pkg else self.name.rpartition(".")[0]

    def _abs(self, level: int, mod: Optional[str]) -> str:
        if level == 0:
            return mod or ""
        base = self._pkg().split(".")
        if level > 1:
            base = base[: -(level - 1)]
        return ".".join(base + ([mod] if mod else []))

    def _index_imports(self) -> None:
        for node in ast.walk(self.tree):
            if isinstance(node, ast.Import):
                for a in node.names:
                    if a.asname:
                        self.imports[a.asname] = (a.name, None)
                    else:
                        top = a.name.split(".")[0]
                        self.imports[top] = (top, None)
            elif isinstance(node, ast.ImportFrom):
                base = self._abs(node.level, node.module)
                for a in node.names:
                    if a.name == "*":
                        self.star_imports.append(base)
                    else:
                        self.imports[a.asname or a.name] = (base, a.name)

    def _index_defs(self, node: ast.AST, prefix: str) -> None:
        for ch in ast.iter_child_nodes(node):
            if isinstance(ch, (ast.FunctionDef, ast.AsyncFunctionDef, ast.ClassDef)):
                q = prefix + ch.name
                # keep the *last* definition (Python semantics) but remember all
                self.defs[q] = ch
                self._index_defs(ch, q + ".")
            elif isinstance(ch, (ast.If, ast.Try, ast.With, ast.For, ast.While)):
                self._index_defs(ch, prefix)

    def toplevel_assign(self, name: str) -> Optional[ast.AST]:
        """value expression of the last module-level `name = ...`"""
        val = None
        for st in self.tree.body:
            if isinstance(st, ast.Assign):
                for t in st.targets:
                    if isinstance(t, ast.Name) and t.id == name:
                        val = st.value
            elif isinstance(st, ast.AnnAssign) and isinstance(st.target, ast.Name) and st.target.id == name:
                val = st.value
        return val


class Repo:
    def __init__(self, root: Optional[str] = None):
        self.root = root or repo_root()
        self.modules: Dict[str, Module] = {}
        self.parse_errors: List[str] = []
        for pkg in PACKAGES:
            top = os.path.join(self.root, pkg)
            if not os.path.isdir(top):
                continue
            for dirpath, dirnames, filenames in os.walk(top):
                dirnames[:] = sorted(d for d in dirnames if d != "__pycache__")
                for fn in sorted(filenames):
                    if not fn.endswith(".py"):
                        continue
                    path = os.path.join(dirpath, fn)
                    rel = os.path.relpath(path, self.root)
                    parts = rel[:-3].split(os.sep)
                    if parts[-1] == "__init__":
                        parts = parts[:-1]
                    name = ".".join(parts)
                    try:
                        with open(path, encoding="utf-8") as f:
                            src = f.read()
                        self.modules[name] = Module(name, path, rel, src)
                    except SyntaxError as e:
                        self.parse_errors.append(f"{rel}: {e}")
        if "annet" not in self.modules:
            raise AnchorError(f"package annet not found under {self.root}")
        if self.parse_errors:
            raise AnchorError("syntax errors in analysed tree: " + "; ".join(self.parse_errors))
        self._class_index: Dict[str, List[Tuple[Module, ast.ClassDef]]] = {}
        for m in self.modules.values():
            for q, d in m.defs.items():
                if isinstance(d, ast.ClassDef):
                    self._class_index.setdefault(d.name, []).append((m, d))

    # ----- lookup
    def module(self, name: str) -> Module:
        if name not in self.modules:
            raise AnchorError(f"module {name} not found")
        return self.modules[name]

    def get(self, modname: str, qual: str) -> ast.AST:
        m = self.module(modname)
        if qual not in m.defs:
            raise AnchorError(f"{modname}:{qual} not found")
        return m.defs[qual]

    def func(self, modname: str, qual: str, canon: bool = True) -> ast.FunctionDef:
        """the (canonicalised: helpers inlined, single-assignment locals and module constants substituted) function"""
        d = self.get(modname, qual)
        if not isinstance(d, (ast.FunctionDef, ast.AsyncFunctionDef)):
            raise AnchorError(f"{modname}:{qual} is not a function")
        if canon and not os.environ.get("VF_NO_CANON"):
            return self.canon(self.modules[modname], d)
        return self.named(self.modules[modname], d)  # type: ignore[return-value]

    def named(self, mod: "Module", fn: ast.FunctionDef) -> ast.FunctionDef:
        """the function as written, with its locals renamed back to the reference spelling where they are recognised (sa/refnames.py);
        the original node when nothing had to be renamed"""
        cache = self.__dict__.setdefault("_named_cache", {})
        if id(fn) in cache:
            return cache[id(fn)]
        from . import refnames
        from .canon import clone, set_parents
        res = fn
        q = self.qualname_of(mod, fn)
        if q and refnames.table().get(mod.name, {}).get(q):
            sig = refnames.signatures(fn)
            ref = refnames.table()[mod.name][q]
            if any(ref.get(k) and ref[k] != name for name, k in sig.items()):
                c = clone(fn)
                if refnames.restore(mod.name, q, c):
                    set_parents(c, getattr(fn, "_parent", None))
                    c._named_of = fn
                    res = c
        cache[id(fn)] = res
        return res

    def qualname_of(self, mod: "Module", fn: ast.AST) -> Optional[str]:
        idx = mod.__dict__.get("_qual_index")
        if idx is None:
            idx = {id(v): k for k, v in mod.defs.items()}
            mod.__dict__["_qual_index"] = idx
        return idx.get(id(fn))

    def canon(self, mod: "Module", fn: ast.FunctionDef) -> ast.FunctionDef:
        if not hasattr(self, "_canonicalizer"):
            from .canon import Canonicalizer
            self._canonicalizer = Canonicalizer(self)
        return self._canonicalizer.canon(mod, fn)

    def cls(self, modname: str, qual: str) -> ast.ClassDef:
        d = self.get(modname, qual)
        if not isinstance(d, ast.ClassDef):
            raise AnchorError(f"{modname}:{qual} is not a class")
        return d

    def loc(self, mod: Module | str, node: ast.AST) -> str:
        m = self.module(mod) if isinstance(mod, str) else mod
        return f"{m.rel}:{getattr(node, 'lineno', 0)}"

    def read_text(self, rel: str) -> str:
        p = os.path.join(self.root, rel)
        if not os.path.isfile(p):
            raise AnchorError(f"file {rel} not found")
        with open(p, encoding="utf-8") as f:
            return f.read()

    # ----- name resolution
    def resolve(self, mod: Module, name: str, _depth: int = 0) -> Optional[Tuple[Module, str, Optional[ast.AST]]]:
        """resolve a (possibly dotted) name used in `mod` to (module, qualname, defnode|None).
        Follows from-imports, `import a.b as c`, star imports and re-exports."""
        if _depth > 8:
            return None
        head, _, rest = name.partition(".")
        # local def?
        if head in mod.defs and not rest:
            return (mod, head, mod.defs[head])
        if head in mod.defs and rest:
            q = head + "." + rest
            if q in mod.defs:
                return (mod, q, mod.defs[q])
        if head in mod.imports:
            tmod, sym = mod.imports[head]
            if sym is None:
                # module alias: a.b.c(...) -> find longest module prefix
                full = tmod + ("." + rest if rest else "")
                parts = full.split(".")
                for i in range(len(parts), 0, -1):
                    mn = ".".join(parts[:i])
                    if mn in self.modules:
                        tail = ".".join(parts[i:])
                        if not tail:
                            return (self.modules[mn], "", self.modules[mn].tree)
                        return self.resolve(self.modules[mn], tail, _depth + 1)
                return None
            # from tmod import sym
            cand = tmod + "." + sym
            if cand in self.modules:  # imported a submodule
                tm = self.modules[cand]
                if not rest:
                    return (tm, "", tm.tree)
                return self.resolve(tm, rest, _depth + 1)
            if tmod in self.modules:
                return self.resolve(self.modules[tmod], sym + ("." + rest if rest else ""), _depth + 1)
            return None
        for sm in mod.star_imports:
            if sm in self.modules:
                r = self.resolve(self.modules[sm], name, _depth + 1)
                if r:
                    return r
        # module-level alias  x = y
        if not rest:
            v = mod.toplevel_assign(head)
            if isinstance(v, (ast.Name, ast.Attribute)):
                dn = dotted(v)
                if dn and dn != name:
                    return self.resolve(mod, dn, _depth + 1)
        return None

    def module_of(self, node: ast.AST) -> Module:
        n = node
        while getattr(n, "_parent", None) is not None:
            n = n._parent  # type: ignore[attr-defined]
        for m in self.modules.values():
            if m.tree is n:
                return m
        raise AnchorError("node does not belong to a parsed module")

    # ----- classes
    def bases(self, mod: Module, cls: ast.ClassDef) -> List[Tuple[Module, ast.ClassDef]]:
        out = []
        for b in cls.bases:
            dn = dotted(b if not isinstance(b, ast.Subscript) else b.value)
            if not dn:
                continue
            r = self.resolve(mod, dn)
            if r and isinstance(r[2], ast.ClassDef):
                out.append((r[0], r[2]))
        return out

    def mro(self, mod: Module, cls: ast.ClassDef) -> List[Tuple[Module, ast.ClassDef]]:
        """C3 linearisation restricted to repo classes (external bases are skipped)."""
        def merge(seqs):
            res = []
            seqs = [list(s) for s in seqs if s]
            while seqs:
                for s in seqs:
                    cand = s[0]
                    if not any(cand[1] is x[1] for t in seqs for x in t[1:]):
                        break
                else:
                    # inconsistent; fall back to first
                    cand = seqs[0][0]
                res.append(cand)
                seqs = [[x for x in s if x[1] is not cand[1]] for s in seqs]
                seqs = [s for s in seqs if s]
            return res
        if not hasattr(self, "_mro_cache"):
            self._mro_cache, self._mro_active = {}, set()
        if id(cls) in self._mro_cache:
            return self._mro_cache[id(cls)]
        if id(cls) in self._mro_active:
            return [(mod, cls)]
        self._mro_active.add(id(cls))
        bs = [(bm, bc) for bm, bc in self.bases(mod, cls) if bc is not cls]
        res = [(mod, cls)] + merge([self.mro(bm, bc) for bm, bc in bs] + [bs])
        self._mro_active.discard(id(cls))
        self._mro_cache[id(cls)] = res
        return res

    def class_attr(self, mod: Module, cls: ast.ClassDef, name: str) -> Optional[Tuple[Module, ast.ClassDef, ast.AST]]:
        """resolve attribute `name` (method def or class-body assignment value) through the MRO"""
        for m, c in self.mro(mod, cls):
            found = None
            for st in c.body:
                if isinstance(st, (ast.FunctionDef, ast.AsyncFunctionDef)) and st.name == name:
                    found = st
                elif isinstance(st, ast.Assign):
                    for t in st.targets:
                        if isinstance(t, ast.Name) and t.id == name:
                            found = st.value
                elif isinstance(st, ast.AnnAssign) and isinstance(st.target, ast.Name) and st.target.id == name \
                        and st.value is not None:
                    found = st.value
            if found is not None:
                # class-body alias  acl_nexus = acl_arista
                if isinstance(found, ast.Name):
                    r = self.class_attr(m, c, found.id)
                    if r:
                        return r
                return (m, c, found)
        return None

    def subclasses(self, base_name: str) -> List[Tuple[Module, ast.ClassDef]]:
        out = []
        for m in self.modules.values():
            for d in m.defs.values():
                if isinstance(d, ast.ClassDef):
                    if any(c.name == base_name for (_, c) in self.mro(m, d)[1:]):
                        out.append((m, d))
        return out

    def all_functions(self, canon: bool = False) -> Iterator[Tuple[Module, str, ast.FunctionDef]]:
        for m in self.modules.values():
            for q, d in list(m.defs.items()):
                if isinstance(d, (ast.FunctionDef, ast.AsyncFunctionDef)):
                    yield m, q, (self.canon(m, d) if canon and not os.environ.get("VF_NO_CANON") else d)  # type: ignore[misc]

    # ----- callee resolution
    def enclosing_class(self, node: ast.AST) -> Optional[ast.ClassDef]:
        n = getattr(node, "_parent", None)
        while n is not None:
            if isinstance(n, ast.ClassDef):
                return n
            n = getattr(n, "_parent", None)
        return None

    def enclosing_func(self, node: ast.AST) -> Optional[ast.FunctionDef]:
        n = getattr(node, "_parent", None)
        while n is not None:
            if isinstance(n, (ast.FunctionDef, ast.AsyncFunctionDef)):
                return n  # type: ignore[return-value]
            n = getattr(n, "_parent", None)
        return None

    def resolve_call(self, mod: Module, call: ast.Call) -> Optional[Tuple[Module, str, ast.AST]]:
        """callee of a Call: Name / module.attr / self.method / cls.method / super().method / Class(...)"""
        f = call.func
        if isinstance(f, ast.Attribute):
            v = f.value
            if isinstance(v, ast.Name) and v.id in ("self", "cls"):
                c = self.enclosing_class(call)
                if c is not None:
                    r = self.class_attr(mod, c, f.attr)
                    if r and isinstance(r[2], (ast.FunctionDef, ast.AsyncFunctionDef)):
                        return (r[0], r[1].name + "." + f.attr, r[2])
                return None
            if isinstance(v, ast.Call) and isinstance(v.func, ast.Name) and v.func.id == "super":
                c = self.enclosing_class(call)
                if c is not None:
                    for m2, c2 in self.mro(mod, c)[1:]:
                        for st in c2.body:
                            if isinstance(st, (ast.FunctionDef, ast.AsyncFunctionDef)) and st.name == f.attr:
                                return (m2, c2.name + "." + f.attr, st)
                return None
        dn = dotted(f)
        if not dn:
            return None
        # nested function defined in an enclosing function?
        fn = self.enclosing_func(call)
        while fn is not None and "." not in dn:
            for st in ast.walk(fn):
                if isinstance(st, (ast.FunctionDef, ast.AsyncFunctionDef)) and st.name == dn and st is not fn \
                        and self.enclosing_func(st) is fn:
                    return (mod, dn, st)
            fn = self.enclosing_func(fn)
        r = self.resolve(mod, dn)
        if r and r[2] is not None and not isinstance(r[2], ast.Module):
            if isinstance(r[2], ast.ClassDef):
                init = self.class_attr(r[0], r[2], "__init__")
                if init and isinstance(init[2], ast.FunctionDef):
                    return (init[0], init[1].name + ".__init__", init[2])
                return (r[0], r[1], r[2])
            return r  # type: ignore[return-value]
        return None


def dotted(node: ast.AST) -> Optional[str]:
    if isinstance(node, ast.Name):
        return node.id
    if isinstance(node, ast.Attribute):
        b = dotted(node.value)
        return b + "." + node.attr if b else None
    return None


def unparse(node: ast.AST) -> str:
    try:
        return ast.unparse(node)
    except Exception:  # pragma: no cover
        return "<?>"


def ordk(node) -> tuple:
    """position of a node for before/after comparisons inside one function (canonical functions are renumbered: see canon.number_nodes)"""
    o = getattr(node, "_ord", None)
    if o is not None:
        return (0, o, 0)
    return (1, getattr(node, "lineno", 0), getattr(node, "col_offset", 0))


def norm(node: ast.AST) -> str:
    """normalised one-line statement/expression text (used as finding key; no line numbers)"""
    return " ".join(unparse(node).split())


def walk_no_nested(node: ast.AST, include_root: bool = True) -> Iterator[ast.AST]:
    """ast.walk that does not descend into nested function/class/lambda definitions"""
    stack = [node]
    first = True
    while stack:
        n = stack.pop()
        if not first and isinstance(n, (ast.FunctionDef, ast.AsyncFunctionDef, ast.ClassDef, ast.Lambda)):
            continue
        if include_root or not first:
            yield n
        first = False
        stack.extend(reversed(list(ast.iter_child_nodes(n))))


def calls_in(node: ast.AST) -> List[ast.Call]:
    return [n for n in walk_no_nested(node) if isinstance(n, ast.Call)]


def call_name(call: ast.Call) -> str:
    return dotted(call.func) or unparse(call.func)


def kwarg(call: ast.Call, name: str, pos: Optional[int] = None) -> Optional[ast.AST]:
    for k in call.keywords:
        if k.arg == name:
            return k.value
    if pos is not None and pos < len(call.args) and not any(isinstance(a, ast.Starred) for a in call.args[: pos + 1]):
        return call.args[pos]
    return None


def params(fn: ast.FunctionDef) -> List[str]:
    a = fn.args
    return [x.arg for x in a.posonlyargs + a.args] + ([a.vararg.arg] if a.vararg else []) + \
        [x.arg for x in a.kwonlyargs] + ([a.kwarg.arg] if a.kwarg else [])
