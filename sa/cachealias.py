"""cached-mutable escape analysis: a function memoised with lru_cache/cache hands the *same* object to every caller;
if that object is a mutable container and some caller (directly or after the value travelled through other functions'
return values) mutates it, every later caller sees the mutation.

sources  : memoised functions (of the given modules) whose returned value may be a fresh mutable container
carriers : functions whose return value may be / may contain the result of a source or of another carrier (no copier between)
sinks    : mutation sites (mutator method, augmented assignment, subscript store, del) whose receiver may be such a value"""
from __future__ import annotations

import ast
from typing import Dict, List, Optional, Tuple

from .effects import MUTATORS, is_copier
from .flow import Provenance
from .repo import Repo, call_name, calls_in, dotted, norm, walk_no_nested

CACHE_DECOS = ("lru_cache", "cache", "functools.lru_cache", "functools.cache", "cached")
MUTABLE_CTORS = {"set", "list", "dict", "odict", "OrderedDict", "defaultdict", "collections.OrderedDict", "collections.defaultdict", "bytearray"}
# a call that builds a new container out of its argument: mutating the result does not touch the argument
REBUILD = {"set", "list", "dict", "sorted", "frozenset", "tuple", "odict", "OrderedDict"}


def is_memoised(fn: ast.FunctionDef) -> bool:
    for d in fn.decorator_list:
        t = d.func if isinstance(d, ast.Call) else d
        if (dotted(t) or "").split(".")[-1] in ("lru_cache", "cache"):
            return True
    return False


def _fresh(call: ast.Call) -> bool:
    return is_copier(call) or ((dotted(call.func) or "") in REBUILD) or (isinstance(call.func, ast.Attribute) and call.func.attr in ("copy", "union", "difference", "intersection",
                                                                                                                                      "symmetric_difference", "keys", "values", "items"))


def _returns_mutable(fn: ast.FunctionDef, repo=None, mod=None, depth: int = 0) -> Optional[ast.AST]:
    pv = Provenance(fn)
    for r in walk_no_nested(fn):
        if isinstance(r, ast.Return) and r.value is not None:
            for kind, node in pv.aliases(r.value, contents=False, is_fresh=is_copier):
                if kind == "fresh" and isinstance(node, (ast.List, ast.Dict, ast.Set, ast.ListComp, ast.DictComp, ast.SetComp)):
                    return node
                if kind == "call" and (dotted(node.func) or "") in MUTABLE_CTORS:
                    return node
                if kind == "call" and repo is not None and depth < 3:
                    # the result of another function of the repository that builds a mutable structure
                    rr = repo.resolve_call(mod, node)
                    if rr and isinstance(rr[2], ast.FunctionDef) and _returns_mutable(rr[2], repo, rr[0], depth + 1) is not None:
                        return node
    return None


class CachedMutables:
    def __init__(self, repo: Repo, source_modules: List[str]):
        self.repo = repo
        self.sources: Dict[int, Tuple[object, str, ast.FunctionDef, ast.AST]] = {}
        for mn in source_modules:
            m = repo.module(mn)
            for q, f in m.defs.items():
                if isinstance(f, ast.FunctionDef) and is_memoised(f):
                    node = _returns_mutable(f, repo, m)
                    if node is not None:
                        self.sources[id(f)] = (m, q, f, node)
        self.tainted: Dict[int, Tuple[object, str, ast.FunctionDef, str]] = {k: (v[0], v[1], v[2], v[1]) for k, v in self.sources.items()}
        self._funcs = [(m, q, f) for m, q, f in repo.all_functions() if isinstance(f, ast.FunctionDef)]
        self._pv: Dict[int, Provenance] = {}
        if self.sources:
            self._propagate()

    def pv(self, f) -> Provenance:
        if id(f) not in self._pv:
            self._pv[id(f)] = Provenance(f)
        return self._pv[id(f)]

    def _tainted_call(self, m, call: ast.Call) -> Optional[str]:
        r = self.repo.resolve_call(m, call)
        if r and id(r[2]) in self.tainted:
            return self.tainted[id(r[2])][3]
        return None

    def _carried(self, m, f, expr) -> Optional[str]:
        """the source a value may come from (identity or contents), or None"""
        pv = self.pv(f)
        for contents in (False, True):
            for kind, node in pv.aliases(expr, contents=contents, is_fresh=_fresh, call_summary=lambda c_: []):
                if kind == "call":
                    s = self._tainted_call(m, node)
                    if s:
                        return s
        return None

    def _propagate(self):
        # only functions that call something tainted can become carriers: iterate to a fixpoint
        changed = True
        rounds = 0
        while changed and rounds < 6:
            changed = False
            rounds += 1
            for m, q, f in self._funcs:
                if id(f) in self.tainted:
                    continue
                if not any(self._tainted_call(m, x) for x in calls_in(f)):
                    continue
                for r in walk_no_nested(f):
                    if isinstance(r, ast.Return) and r.value is not None:
                        s = self._carried(m, f, r.value)
                        if s:
                            self.tainted[id(f)] = (m, q, f, s)
                            changed = True
                            break

    def arg_sinks(self, effects) -> List[tuple]:
        """(module, function qualname, call node, source name, callee) where a value that may be a memoised result is handed (itself, or inside a list/tuple/dict
        literal built at the call) to a resolved function that may mutate the corresponding parameter"""
        out = []
        for m, q, f in self._funcs:
            if not any(self._tainted_call(m, x) for x in calls_in(f)):
                continue
            pv = self.pv(f)
            for call in calls_in(f):
                r = self.repo.resolve_call(m, call)
                if not r or not isinstance(r[2], ast.FunctionDef) or id(r[2]) in self.tainted:
                    continue
                mut = effects.mutated_params(r[0], r[1], r[2])
                if not mut:
                    continue
                pn = [a.arg for a in r[2].args.args]
                if pn and pn[0] in ("self", "cls") and (isinstance(call.func, ast.Attribute) or r[1].endswith(".__init__")):
                    pn = pn[1:]
                bound = {}
                for i, a in enumerate(call.args):
                    if i < len(pn):
                        bound[pn[i]] = a
                for k in call.keywords:
                    if k.arg:
                        bound[k.arg] = k.value
                for p, a in bound.items():
                    if p not in mut:
                        continue
                    parts = [a] + ([e for e in a.elts] if isinstance(a, (ast.List, ast.Tuple, ast.Set)) else []) + ([v for v in a.values] if isinstance(a, ast.Dict) else [])
                    for part in parts:
                        hit = None
                        for kind, node in pv.aliases(part, contents=False, is_fresh=_fresh, call_summary=lambda c_: []):
                            if kind == "call":
                                hit = self._tainted_call(m, node)
                                if hit:
                                    break
                        if hit:
                            out.append((m, q, call, hit, r[1], mut[p]))
                            break
        return out

    def sinks(self) -> List[Tuple[object, str, ast.AST, str]]:
        """(module, function qualname, mutation node, source name)"""
        out = []
        for m, q, f in self._funcs:
            if not any(self._tainted_call(m, x) for x in calls_in(f)):
                continue
            pv = self.pv(f)
            for n in walk_no_nested(f):
                recv = None
                if isinstance(n, ast.Call) and isinstance(n.func, ast.Attribute) and n.func.attr in MUTATORS:
                    recv = n.func.value
                elif isinstance(n, ast.AugAssign) and isinstance(n.target, ast.Name) and isinstance(n.op, (ast.BitOr, ast.BitAnd, ast.Sub, ast.Add, ast.BitXor)):
                    recv = n.target
                elif isinstance(n, (ast.Assign, ast.AugAssign)):
                    for t in (n.targets if isinstance(n, ast.Assign) else [n.target]):
                        if isinstance(t, ast.Subscript):
                            recv = t.value
                elif isinstance(n, ast.Delete):
                    for t in n.targets:
                        if isinstance(t, ast.Subscript):
                            recv = t.value
                if recv is None:
                    continue
                for kind, node in pv.aliases(recv, contents=False, is_fresh=_fresh, call_summary=lambda c_: []):
                    if kind == "call":
                        s = self._tainted_call(m, node)
                        if s:
                            out.append((m, q, n, s))
                            break
        return out
