"""E3 -- guard algebra: python test expressions -> propositional formulas over canonical atoms;
implication / equivalence / satisfiability by truth-table enumeration."""
from __future__ import annotations

import ast
import itertools
from typing import Callable, Dict, FrozenSet, Iterable, List, Optional, Tuple

from .repo import unparse

# Formula representation: nested tuples
#   ("T",) ("F",) ("atom", text) ("not", f) ("and", f1, f2, ...) ("or", f1, ...)
T = ("T",)
F = ("F",)


def Atom(s: str):
    return ("atom", s)


def Not(f):
    if f == T:
        return F
    if f == F:
        return T
    if f[0] == "not":
        return f[1]
    return ("not", f)


def And(*fs):
    out = []
    for f in fs:
        if f == T:
            continue
        if f == F:
            return F
        if f[0] == "and":
            out.extend(f[1:])
        else:
            out.append(f)
    if not out:
        return T
    if len(out) == 1:
        return out[0]
    return ("and",) + tuple(out)


def Or(*fs):
    out = []
    for f in fs:
        if f == F:
            continue
        if f == T:
            return T
        if f[0] == "or":
            out.extend(f[1:])
        else:
            out.append(f)
    if not out:
        return F
    if len(out) == 1:
        return out[0]
    return ("or",) + tuple(out)


def atoms(f) -> FrozenSet[str]:
    if f[0] == "atom":
        return frozenset([f[1]])
    if f[0] in ("T", "F"):
        return frozenset()
    s: FrozenSet[str] = frozenset()
    for g in f[1:]:
        s |= atoms(g)
    return s


def evaluate(f, val: Dict[str, bool]) -> bool:
    k = f[0]
    if k == "T":
        return True
    if k == "F":
        return False
    if k == "atom":
        return val[f[1]]
    if k == "not":
        return not evaluate(f[1], val)
    if k == "and":
        return all(evaluate(g, val) for g in f[1:])
    if k == "or":
        return any(evaluate(g, val) for g in f[1:])
    raise ValueError(k)


class TooManyAtoms(Exception):
    pass


def valuations(names: Iterable[str], limit: int = 14):
    names = sorted(set(names))
    if len(names) > limit:
        raise TooManyAtoms(f"{len(names)} atoms")
    for bits in itertools.product([False, True], repeat=len(names)):
        yield dict(zip(names, bits))


def _eval3(f, val):
    """three-valued evaluation under a partial valuation"""
    k = f[0]
    if k == "T":
        return True
    if k == "F":
        return False
    if k == "atom":
        return val.get(f[1])
    if k == "not":
        v = _eval3(f[1], val)
        return None if v is None else (not v)
    if k == "and":
        unk = False
        for g in f[1:]:
            v = _eval3(g, val)
            if v is False:
                return False
            if v is None:
                unk = True
        return None if unk else True
    unk = False
    for g in f[1:]:
        v = _eval3(g, val)
        if v is True:
            return True
        if v is None:
            unk = True
    return None if unk else False


def _sat(f, names, val, budget):
    v = _eval3(f, val)
    if v is not None:
        return v
    budget[0] -= 1
    if budget[0] < 0:
        raise TooManyAtoms("search budget exhausted")
    for n in names:
        if n not in val:
            for b in (True, False):
                val[n] = b
                if _sat(f, names, val, budget):
                    del val[n]
                    return True
            del val[n]
            return False
    return False


def satisfiable(f, axioms=T) -> bool:
    g = And(axioms, f)
    # split on atoms in order of first appearance (conjunct literals first: they are decided at once)
    names = []

    def collect(h):
        if h[0] == "atom":
            if h[1] not in names:
                names.append(h[1])
        elif h[0] not in ("T", "F"):
            for x in h[1:]:
                collect(x)
    collect(g)
    return _sat(g, names, {}, [2000000])


def implies(f, g, axioms=T) -> bool:
    return not satisfiable(And(f, Not(g)), axioms)


def equivalent(f, g, axioms=T) -> bool:
    return implies(f, g, axioms) and implies(g, f, axioms)


def show(f) -> str:
    k = f[0]
    if k == "T":
        return "true"
    if k == "F":
        return "false"
    if k == "atom":
        return f[1]
    if k == "not":
        return "¬(" + show(f[1]) + ")"
    sep = " ∧ " if k == "and" else " ∨ "
    return "(" + sep.join(show(g) for g in f[1:]) + ")"


# ---------------------------------------------------------------- expression -> formula
_CMP_NEG = {ast.Eq: ast.NotEq, ast.NotEq: ast.Eq, ast.Lt: ast.GtE, ast.GtE: ast.Lt, ast.Gt: ast.LtE, ast.LtE: ast.Gt,
            ast.Is: ast.IsNot, ast.IsNot: ast.Is, ast.In: ast.NotIn, ast.NotIn: ast.In}
_CMP_SWAP = {ast.Lt: ast.Gt, ast.Gt: ast.Lt, ast.LtE: ast.GtE, ast.GtE: ast.LtE, ast.Eq: ast.Eq, ast.NotEq: ast.NotEq}
_CMP_TXT = {ast.Eq: "==", ast.Lt: "<", ast.LtE: "<=", ast.Is: "is", ast.In: "in"}


class GuardEnv:
    """how expression text is canonicalised: `subst` maps a Name to an expression it aliases
    (single-assignment locals such as `enable_reload = args.x is not Flag.no`), `rename` maps
    expression text to a role name chosen by the rule (e.g. 'diff[Op.REMOVED]' -> 'REMOVED')."""

    def __init__(self, subst: Optional[Dict[str, ast.AST]] = None, rename: Optional[Callable[[str], str]] = None):
        self.subst = subst or {}
        self.rename = rename or (lambda s: s)

    def text(self, e: ast.AST) -> str:
        e = self.expand(e)
        if self.subst and any(isinstance(n, ast.Name) and n.id in self.subst for n in ast.walk(e)):
            e = self._deep(e, 0)
        return self.rename(" ".join(unparse(e).split()))

    def _deep(self, e: ast.AST, depth: int) -> ast.AST:
        """substitute aliased names anywhere inside the expression (on a parent-free copy)"""
        import copy as _copy
        env = self

        class T(ast.NodeTransformer):
            def visit_Name(self, node):
                if isinstance(node.ctx, ast.Load) and node.id in env.subst and depth < 6:
                    return env._deep(_strip(env.subst[node.id]), depth + 1)
                return node
        return T().visit(_strip(e))

    def expand(self, e: ast.AST, depth: int = 0) -> ast.AST:
        if depth > 6:
            return e
        if isinstance(e, ast.Name) and e.id in self.subst:
            return self.expand(self.subst[e.id], depth + 1)
        return e


def _strip(node):
    """copy of an AST without _parent back-pointers"""
    if isinstance(node, list):
        return [_strip(x) for x in node]
    if not isinstance(node, ast.AST):
        return node
    new = node.__class__()
    for f in node._fields:
        if hasattr(node, f):
            setattr(new, f, _strip(getattr(node, f)))
    for a in ("lineno", "col_offset", "end_lineno", "end_col_offset"):
        if hasattr(node, a):
            setattr(new, a, getattr(node, a))
    return new


def formula(e: ast.AST, env: Optional[GuardEnv] = None):
    """truthiness of python expression `e` as a formula"""
    env = env or GuardEnv()
    e = env.expand(e)
    if isinstance(e, ast.Constant):
        return T if e.value else F
    if isinstance(e, ast.BoolOp):
        parts = [formula(v, env) for v in e.values]
        return And(*parts) if isinstance(e.op, ast.And) else Or(*parts)
    if isinstance(e, ast.UnaryOp) and isinstance(e.op, ast.Not):
        return Not(formula(e.operand, env))
    if isinstance(e, ast.NamedExpr):
        return formula(e.value, env)
    if isinstance(e, ast.Call) and isinstance(e.func, ast.Name) and e.func.id == "bool" and len(e.args) == 1:
        return formula(e.args[0], env)
    if isinstance(e, ast.Compare):
        parts = []
        left = e.left
        for op, right in zip(e.ops, e.comparators):
            parts.append(_cmp(left, op, right, env))
            left = right
        return And(*parts)
    return Atom(env.text(e))


def _cmp(left: ast.AST, op: ast.cmpop, right: ast.AST, env: GuardEnv):
    t = type(op)
    neg = False
    # canonical operator set: ==, <, <=, is, in   (others expressed by negation / swap)
    if t in (ast.NotEq, ast.IsNot, ast.NotIn):
        t = _CMP_NEG[t]
        neg = True
    if t in (ast.Gt, ast.GtE):
        t = _CMP_SWAP[t]
        left, right = right, left
    if t is ast.LtE:
        # a <= b  ==  not (b < a)
        t = ast.Lt
        left, right = right, left
        neg = not neg
    lt, rt = env.text(left), env.text(right)
    if t in (ast.Eq, ast.Is) and lt > rt:
        lt, rt = rt, lt
    if t is ast.Is and rt == "None" or t is ast.Is and lt == "None":
        other = lt if rt == "None" else rt
        a = Atom(env.rename(f"{other} is None"))
    else:
        a = Atom(env.rename(f"{lt} {_CMP_TXT[t]} {rt}"))
    return Not(a) if neg else a


# ----------------------------------------------------------------------------- linear comparisons
def linear(e: ast.AST):
    """e as {term text: integer coefficient} with the constant under key 1, or None if not linear over + - and integer constants"""
    if isinstance(e, ast.Constant) and isinstance(e.value, int) and not isinstance(e.value, bool):
        return {1: e.value}
    if isinstance(e, ast.BinOp) and isinstance(e.op, (ast.Add, ast.Sub)):
        a, b = linear(e.left), linear(e.right)
        if a is None or b is None:
            return None
        out = dict(a)
        sg = 1 if isinstance(e.op, ast.Add) else -1
        for k, v in b.items():
            out[k] = out.get(k, 0) + sg * v
        return out
    if isinstance(e, ast.UnaryOp) and isinstance(e.op, ast.USub):
        a = linear(e.operand)
        return None if a is None else {k: -v for k, v in a.items()}
    return {" ".join(ast.unparse(e).split()): 1}


def linear_relation(cmp_node: ast.AST):
    """(op, frozenset of (term, coefficient)) for `lhs <op> rhs` read as lhs - rhs <op> 0, sign-normalised for == and !=; None if not a single linear comparison"""
    if not (isinstance(cmp_node, ast.Compare) and len(cmp_node.ops) == 1):
        return None
    a, b = linear(cmp_node.left), linear(cmp_node.comparators[0])
    if a is None or b is None:
        return None
    d = dict(a)
    for k, v in b.items():
        d[k] = d.get(k, 0) - v
    d = {k: v for k, v in d.items() if v != 0}
    op = type(cmp_node.ops[0]).__name__
    if op in ("Eq", "NotEq") and d:
        first = sorted((k for k in d if k != 1), key=str)
        if first and d[first[0]] < 0:
            d = {k: -v for k, v in d.items()}
    return op, frozenset(d.items())


def substitute(f, mapping: Dict[str, tuple]):
    """replace atoms by formulas (e.g. the atom `d.get(k) is None` by Not(Atom('present')))"""
    k = f[0]
    if k == "atom":
        return mapping.get(f[1], f)
    if k == "not":
        return Not(substitute(f[1], mapping))
    if k == "and":
        return And(*[substitute(g, mapping) for g in f[1:]])
    if k == "or":
        return Or(*[substitute(g, mapping) for g in f[1:]])
    return f
