"""E8e -- extraction of rule-text constants embedded in Python: string literals a function returns or
accumulates into a variable along its branches (with the branch guards), e.g. implicit._implicit_tree and the
acl_<vendor>/ref_<vendor> methods of generators."""
from __future__ import annotations

import ast
import textwrap
from typing import Dict, List, Optional, Tuple

from .repo import AnchorError, Module, Repo, norm, walk_no_nested
from .flow import always_abrupt


class TextPath:
    def __init__(self, conds: List[Tuple[ast.AST, bool]], parts: List[Tuple[ast.AST, str]]):
        self.conds = conds
        self.parts = parts        # (node, literal text) in concatenation order

    @property
    def text(self) -> str:
        return "".join(t for _, t in self.parts)

    def cond_text(self) -> str:
        return " ∧ ".join(("" if pol else "not ") + norm(t) for t, pol in self.conds) or "always"


def const_text(e: ast.AST) -> Optional[str]:
    """string value of a literal expression (plain/raw/concatenated constants, textwrap.dedent(...), .strip())"""
    if isinstance(e, ast.Constant) and isinstance(e.value, str):
        return e.value
    if isinstance(e, ast.BinOp) and isinstance(e.op, ast.Add):
        a, b = const_text(e.left), const_text(e.right)
        if a is not None and b is not None:
            return a + b
    if isinstance(e, ast.Call) and isinstance(e.func, ast.Attribute) and e.func.attr in ("strip", "rstrip", "lstrip") and not e.args:
        return const_text(e.func.value)
    if isinstance(e, ast.Call) and e.args and (norm(e.func).endswith("dedent")):
        t = const_text(e.args[0])
        return textwrap.dedent(t) if t is not None else None
    if isinstance(e, ast.JoinedStr):
        out = ""
        for v in e.values:
            if isinstance(v, ast.Constant):
                out += str(v.value)
            else:
                out += "\x00"   # hole
        return out
    return None


def accumulate_paths(fn: ast.FunctionDef, var: str, max_paths: int = 256) -> List[TextPath]:
    """enumerate the branch combinations of `fn` and, for each, the literals assigned/added to `var`
    (`var = "..."` restarts, `var += "..."` appends).  Loops are not supported (AnchorError)."""
    paths: List[TextPath] = []

    def block(stmts, conds, parts):
        """yields (conds, parts) at the end of the block"""
        states = [(list(conds), list(parts))]
        for st in stmts:
            nxt = []
            for cs, ps in states:
                if isinstance(st, ast.Assign) and len(st.targets) == 1 and isinstance(st.targets[0], ast.Name) and st.targets[0].id == var:
                    t = const_text(st.value)
                    if t is None:
                        raise AnchorError(f"{fn.name}: `{var} = ...` is not a literal at line {st.lineno}")
                    nxt.append((cs, [(st, t)] if t else []))
                elif isinstance(st, ast.AugAssign) and isinstance(st.target, ast.Name) and st.target.id == var and isinstance(st.op, ast.Add):
                    t = const_text(st.value)
                    if t is None:
                        raise AnchorError(f"{fn.name}: `{var} += ...` is not a literal at line {st.lineno}")
                    nxt.append((cs, ps + [(st, t)]))
                elif isinstance(st, ast.If):
                    for cs2, ps2 in block(st.body, cs + [(st.test, True)], ps):
                        nxt.append((cs2, ps2))
                    for cs2, ps2 in block(st.orelse, cs + [(st.test, False)], ps):
                        nxt.append((cs2, ps2))
                elif isinstance(st, (ast.For, ast.While)):
                    if any(isinstance(n, ast.Name) and n.id == var and isinstance(n.ctx, ast.Store) for n in ast.walk(st)):
                        raise AnchorError(f"{fn.name}: `{var}` is written inside a loop (unsupported idiom)")
                    nxt.append((cs, ps))
                elif isinstance(st, ast.Return):
                    paths.append(TextPath(cs, ps))
                else:
                    nxt.append((cs, ps))
                if len(nxt) + len(paths) > max_paths:
                    raise AnchorError(f"{fn.name}: too many branch combinations")
            states = nxt
        return states
    rest = block(fn.body, [], [])
    for cs, ps in rest:
        paths.append(TextPath(cs, ps))
    return paths


def returned_texts(fn: ast.FunctionDef) -> List[Tuple[ast.AST, Optional[str], List[Tuple[ast.AST, bool]]]]:
    """(return node, literal text or None, guards) for every return of `fn`"""
    from .flow import GuardMap
    gm = GuardMap(fn)
    out = []
    for n in walk_no_nested(fn):
        if isinstance(n, ast.Return) and n.value is not None:
            v = n.value
            t = const_text(v)
            if t is None and isinstance(v, ast.Name):
                # single literal assignment to a local
                for a in walk_no_nested(fn):
                    if isinstance(a, ast.Assign) and isinstance(a.targets[0], ast.Name) and a.targets[0].id == v.id:
                        t = const_text(a.value)
            out.append((n, t, gm.of(n)))
    return out
