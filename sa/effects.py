"""E6 -- may-mutate effects: which parameters (or other named sources) a function may mutate,
through aliases, resolved repo callees (call-graph fixpoint with recursion guard) and a small
model of library mutators."""
from __future__ import annotations

import ast
from typing import Callable, Dict, List, Optional, Set, Tuple

from .flow import Provenance, ReachingDefs, FuncT
from .repo import Module, Repo, dotted, norm, params, walk_no_nested

MUTATORS = {"append", "extend", "update", "pop", "clear", "sort", "insert", "remove", "setdefault",
            "popitem", "add", "discard", "reverse", "appendleft", "popleft", "move_to_end", "difference_update",
            "intersection_update", "symmetric_difference_update"}
# calls that return a fresh object (a shield): the result does not alias its arguments
COPIERS = {"copy.deepcopy", "deepcopy", "json.loads", "json.dumps", "str", "int", "len", "bool", "repr",
           "frozenset", "format_json", "isinstance", "id", "hash", "type"}
# shallow copiers: new container, shared children -- a mutation of the *container* is safe,
# a mutation of something obtained from it is not.  Treated as aliasing (conservative).
# library calls whose result never aliases a mutable argument
PURE_RESULT = {"join", "format", "split", "strip", "startswith", "endswith", "encode", "decode", "lower", "upper",
               "replace", "match", "search", "fnmatchcase", "range", "enumerate_", "min", "max", "sum", "any", "all",
               "get_parts", "sub", "compile", "escape", "count", "index", "find"}
SHALLOW = {"list", "dict", "set", "odict", "OrderedDict", "copy.copy", "copy", "tuple", "sorted"}


def is_shallow(call: ast.Call) -> bool:
    dn = dotted(call.func) or ""
    if isinstance(call.func, ast.Attribute) and call.func.attr == "copy" and not call.args:
        return False  # x.copy(): handled as unknown method (conservative) unless listed
    return dn in SHALLOW and len(call.args) == 1


def is_copier(call: ast.Call) -> bool:
    dn = dotted(call.func) or ""
    return dn in COPIERS or dn.endswith(".deepcopy") or dn.endswith("JsonPointer") or dn.endswith("JsonPointer.from_parts")


class Site:
    def __init__(self, mod: Module, fn_qual: str, node: ast.AST, source: str, how: str, via: Tuple[str, ...] = (), root=None):
        self.mod = mod
        self.fn_qual = fn_qual
        self.node = node
        self.source = source
        self.how = how
        self.via = via
        # the primitive write this mutation ultimately is: (module name, function qualname, parameter, node)
        self.root = root or (mod.name, fn_qual, source, node)

    def at(self) -> str:
        return f"{self.mod.rel}:{getattr(self.node, 'lineno', 0)}"

    def __repr__(self):
        return f"{self.at()} {self.fn_qual}: {self.how} mutates {self.source}" + (f" via {'>'.join(self.via)}" if self.via else "")


class Effects:
    def __init__(self, repo: Repo, max_depth: int = 4,
                 dynamic: Optional[Callable[[Module, ast.Call, ast.AST], Optional[List[Tuple[Module, str, ast.FunctionDef]]]]] = None,
                 mode: str = "contents"):
        """mode 'contents': field-insensitive aliasing through containers (conservative, for small self-contained modules);
        mode 'paths': only access paths rooted at a parameter (subscripts/attributes/element iteration/resolved callees) — no flow
        through fresh containers and unknown library calls (fewer false alarms on large closures)"""
        self.mode = mode
        self.repo = repo
        self.max_depth = max_depth
        self.dynamic = dynamic
        self._memo: Dict[int, Dict[str, List[Site]]] = {}
        self._active: Set[int] = set()
        self._stack: List[int] = []
        self._cutoffs = 0
        self._prov: Dict[int, Provenance] = {}
        self.unresolved: List[str] = []
        self._ret_memo: Dict[int, Set[str]] = {}
        self._ret_active: Set[int] = set()

    def prov(self, fn: ast.AST) -> Provenance:
        if id(fn) not in self._prov:
            self._prov[id(fn)] = Provenance(fn)
        return self._prov[id(fn)]

    def param_sources(self, fn: ast.AST, expr: ast.AST, mod: Optional[Module] = None) -> Set[str]:
        """names of parameters whose object (or something inside it) `expr` may be (not through copiers)"""
        out = set()
        summary = self._summary_fn(mod)
        if self.mode == "paths":
            def summ2(call):
                last = call.func.attr if isinstance(call.func, ast.Attribute) else (dotted(call.func) or "")
                if mod is not None:
                    r = self.repo.resolve_call(mod, call)
                    if r and isinstance(r[2], FuncT):
                        return self.returns_alias_of(r[0], r[2], call)
                return None
            for k, n in self.prov(fn).roots(expr, is_fresh=lambda cl: is_copier(cl) or is_shallow(cl), call_summary=summ2):
                if k == "param":
                    out.add(n.arg)  # type: ignore[attr-defined]
            return out
        for k, n in self.prov(fn).aliases(expr, False, is_fresh=is_copier, call_summary=summary, is_shallow=is_shallow):
            if k == "param":
                out.add(n.arg)  # type: ignore[attr-defined]
        return out

    def _summary_fn(self, mod: Optional[Module]):
        def summary(call: ast.Call):
            last = call.func.attr if isinstance(call.func, ast.Attribute) else (dotted(call.func) or "")
            if last in PURE_RESULT:
                return []
            if mod is not None:
                r = self.repo.resolve_call(mod, call)
                if r and isinstance(r[2], FuncT):
                    return self.returns_alias_of(r[0], r[2], call)
            return None
        return summary

    def returns_alias_of(self, cm: Module, cfn: ast.FunctionDef, call: ast.Call) -> Optional[List[ast.AST]]:
        """argument expressions of `call` that the resolved callee's return value may alias"""
        key = id(cfn)
        if key in self._ret_active:
            return None
        if key not in self._ret_memo:
            self._ret_active.add(key)
            ps: Set[str] = set()
            is_gen = any(isinstance(n, (ast.Yield, ast.YieldFrom)) for n in walk_no_nested(cfn))
            for n in walk_no_nested(cfn):
                vals = []
                if isinstance(n, ast.Return) and n.value is not None:
                    vals.append(n.value)
                elif isinstance(n, ast.Yield) and n.value is not None:
                    vals.append(n.value)
                elif isinstance(n, ast.YieldFrom):
                    vals.append(n.value)
                for v in vals:
                    ps |= self.param_sources(cfn, v, cm)
                    if self.mode == "paths":
                        # a returned/yielded tuple or list: any element rooted at a parameter
                        for el in ast.walk(v):
                            if isinstance(el, (ast.Tuple, ast.List)):
                                for x in el.elts:
                                    ps |= self.param_sources(cfn, x, cm)
                        continue
                    # contents of what is returned may alias params as well
                    for k2, n2 in self.prov(cfn).aliases(v, True, is_fresh=is_copier, call_summary=self._summary_fn(cm), is_shallow=is_shallow):
                        if k2 == "param":
                            ps.add(n2.arg)  # type: ignore[attr-defined]
            self._ret_active.discard(key)
            self._ret_memo[key] = ps
        ps = self._ret_memo[key]
        pnames = [a.arg for a in cfn.args.posonlyargs + cfn.args.args]
        f = call.func
        is_method = bool(pnames) and pnames[0] in ("self", "cls") and isinstance(f, ast.Attribute)
        bound: Dict[str, ast.AST] = {}
        pos = pnames[1:] if is_method else pnames
        if is_method:
            bound[pnames[0]] = f.value  # type: ignore[union-attr]
        for i, a in enumerate(call.args):
            if isinstance(a, ast.Starred):
                return None
            if i < len(pos):
                bound[pos[i]] = a
        for k in call.keywords:
            if k.arg:
                bound[k.arg] = k.value
            else:
                return None
        return [bound[p] for p in ps if p in bound]

    def mutated_params(self, mod: Module, qual: str, fn: ast.FunctionDef, depth: int = 0) -> Dict[str, List[Site]]:
        """param name -> mutation sites (in this function or callees)"""
        if id(fn) in self._memo:
            return self._memo[id(fn)]
        if id(fn) in self._active or depth > self.max_depth:
            # a cut-off, not a summary: whoever used this answer must not memoise what it derived from it (a summary computed deep inside one traversal would otherwise be
            # served, incomplete, to a later top-level question).  Direct self-recursion is exempt: the missing part is the summary under construction itself.
            if not (self._stack and self._stack[-1] == id(fn)):
                self._cutoffs += 1
            return {}
        self._active.add(id(fn))
        self._stack.append(id(fn))
        cut0 = self._cutoffs
        res: Dict[str, List[Site]] = {}

        def hit(expr: ast.AST, node: ast.AST, how: str, via: Tuple[str, ...] = (), root=None):
            for p in self.param_sources(fn, expr, mod):
                res.setdefault(p, []).append(Site(mod, qual, node, p, how, via, root))

        for n in walk_no_nested(fn):
            if isinstance(n, (ast.Assign, ast.AugAssign, ast.AnnAssign)):
                tgts = n.targets if isinstance(n, ast.Assign) else [n.target]
                for t in tgts:
                    for tt in ([t] if not isinstance(t, (ast.Tuple, ast.List)) else t.elts):
                        if isinstance(tt, (ast.Subscript, ast.Attribute)):
                            hit(tt.value, n, f"store `{norm(tt)} = ...`")
                            if isinstance(n, ast.AugAssign) and isinstance(n.op, (ast.Add, ast.BitOr)):
                                # x[k] += [...] extends the list stored at x[k] in place (and then stores it back); `&=`/`-=` are left out: on the flags and
                                # counters this code base keeps in tables they rebind an immutable value
                                hit(tt, n, f"augmented assignment `{norm(n)[:70]}`")
                        elif isinstance(n, ast.AugAssign) and isinstance(tt, ast.Name):
                            # x += [...] mutates a list in place
                            hit(tt, n, f"augmented assignment `{norm(n)}`") if isinstance(n.op, (ast.Add, ast.BitOr, ast.BitAnd, ast.Sub)) else None
            elif isinstance(n, ast.Delete):
                for t in n.targets:
                    if isinstance(t, (ast.Subscript, ast.Attribute)):
                        hit(t.value, n, f"`{norm(n)}`")
            elif isinstance(n, ast.Call):
                f = n.func
                if isinstance(f, ast.Attribute) and f.attr in MUTATORS:
                    hit(f.value, n, f"`{norm(n)[:80]}`")
                elif isinstance(f, ast.Attribute) and f.attr == "set" and len(n.args) == 2:
                    hit(n.args[0], n, f"`{norm(n)[:80]}` (JsonPointer.set writes into its first argument)")
                # callee summaries
                targets: List[Tuple[Module, str, ast.AST]] = []
                r = self.repo.resolve_call(mod, n)
                if r and isinstance(r[2], FuncT):
                    targets.append(r)  # type: ignore[arg-type]
                elif self.dynamic:
                    dyn = self.dynamic(mod, n, fn)
                    if dyn:
                        targets.extend(dyn)  # type: ignore[arg-type]
                for (cm, cq, cfn) in targets:
                    if not isinstance(cfn, FuncT):
                        continue
                    summ = self.mutated_params(cm, cq, cfn, depth + 1)
                    if not summ:
                        continue
                    pnames = [a.arg for a in cfn.args.posonlyargs + cfn.args.args]
                    is_ctor = cq.endswith(".__init__") and not (isinstance(f, ast.Attribute) and f.attr == "__init__")
                    is_method = bool(pnames) and pnames[0] in ("self", "cls") and isinstance(f, ast.Attribute) and not is_ctor
                    bound: Dict[str, ast.AST] = {}
                    pos = pnames[1:] if (is_method or is_ctor) else pnames
                    if is_method:
                        bound[pnames[0]] = f.value  # type: ignore[union-attr]
                    surplus: List[ast.AST] = []
                    for i, a in enumerate(n.args):
                        if isinstance(a, ast.Starred):
                            surplus.append(a.value)
                            break
                        if i < len(pos):
                            bound[pos[i]] = a
                        else:
                            surplus.append(a)
                    for k in n.keywords:
                        if k.arg:
                            bound[k.arg] = k.value
                    va = cfn.args.vararg.arg if cfn.args.vararg else None
                    if va and va in summ and surplus:
                        # what the callee does to the elements of its *args tuple it does to every surplus positional argument
                        seen_roots = set()
                        for s_ in summ[va]:
                            rk = (s_.root[:3], id(s_.root[3]))
                            if rk in seen_roots:
                                continue
                            seen_roots.add(rk)
                            for a in surplus:
                                hit(a, n, f"call `{norm(n)[:70]}` ({cq} mutates what its `*{va}` holds: {s_.at()} {s_.how})", (cq,) + s_.via, s_.root)
                    for pname, sites in summ.items():
                        if pname in bound:
                            seen_roots = set()
                            for s_ in sites:
                                rk = (s_.root[:3], id(s_.root[3]))   # one entry per primitive write, not per function
                                if rk in seen_roots:
                                    continue
                                seen_roots.add(rk)
                                hit(bound[pname], n, f"call `{norm(n)[:70]}` ({cq} mutates its `{pname}`: {s_.at()} {s_.how})",
                                    (cq,) + s_.via, s_.root)
        self._active.discard(id(fn))
        self._stack.pop()
        if self._cutoffs == cut0 or depth == 0:
            self._memo[id(fn)] = res
        return res
